"""Hand-written mutants for the sensitivity self-test: small, realistic edits
of /repo/python that still pass the pinned 176 tests, each breaking one
property.  (name, properties expected to catch it, file, old, new)."""

W = 'pydiffx/writer.py'
R = 'pydiffx/reader.py'
T = 'pydiffx/utils/text.py'
S = 'pydiffx/sections.py'
O = 'pydiffx/dom/objects.py'
DR = 'pydiffx/dom/reader.py'
DW = 'pydiffx/dom/writer.py'
P = 'pydiffx/dom/properties.py'

MUTANTS = [
    ('writer-no-bom-strip', ['C01', 'C02', 'C15'], W,
     "        newline = strip_bom(newline,\n                            encoding=encoding)\n",
     "        pass\n"),
    ('writer-inherits-from-sibling', ['C04', 'C02'], W,
     """        self._write_section_header(section=section,
                                   encoding=encoding,
                                   **options)

        # If we're""",
     """        self._write_section_header(section=section,
                                   encoding=encoding,
                                   **options)
        encoding = encoding or self._cur_encoding

        # If we're"""),
    ('reader-strips-all-leading-spaces', ['C01', 'C03'], R,
     "                _line[:indent].lstrip(b' ') + _line[indent:]\n",
     "                _line.lstrip(b' ')\n"),
    ('writer-json-keys-unsorted', ['C02'], W,
     "                               sort_keys=True),\n",
     "                               sort_keys=False),\n"),
    ('reader-negative-ints-stay-strings', ['C12', 'C11'], R,
     """                try:
                    option_value = int(option_value)
                except ValueError:
                    pass
""",
     """                if option_value.isdigit():
                    option_value = int(option_value)
"""),
    ('reader-no-pop-between-sibling-files', ['C04', 'C01'], R,
     "                    for i in range(prev_container_level - level + 1):\n",
     "                    for i in range(prev_container_level - level + (level < 2)):\n"),
    ('reader-diff-inherits-encoding', ['C04', 'C01', 'C03'], R,
     "                        encoding=options.get('encoding'),\n                        line_endings=options.get('line_endings'),\n                        preserve_trailing_newline=True,",
     "                        encoding=encoding,\n                        line_endings=options.get('line_endings'),\n                        preserve_trailing_newline=True,"),
    ('dom-writer-drops-diff-line-endings', ['C05', 'C06'], DW,
     """        return {
            remapped_options.get(_key, _key): _value
            for _key, _value in options.items()
        }""",
     """        return {
            remapped_options.get(_key, _key): _value
            for _key, _value in options.items()
            if not (section.section_name == 'diff' and
                    _key == 'line_endings' and _value == 'unix')
        }"""),
    ('dom-reader-drops-mimetype', ['C05', 'C06'], DR,
     "        options.pop('length', None)\n",
     "        options.pop('length', None)\n        options.pop('mimetype', None)\n"),
    ('reader-unterminated-header-at-eof-accepted', ['C07'], R,
     """            if eof:
                return None
""",
     """            if eof:
                if not header.strip():
                    return None

                header += b'\\n'
"""),
    ('reader-encoding-errors-escape-again', ['C08'], R,
     "        except (LookupError, TypeError, ValueError) as e:\n",
     "        except ValueError as e:\n"),
    ('dom-reader-stream-not-closed-on-failure', ['C08'], DR,
     "        with stream:\n            reader = self.reader_cls(stream)",
     "        if True:\n            reader = self.reader_cls(stream)"),
    ('parse-error-linenum-off', ['C08', 'C03'], R,
     """            raise DiffXParseError(
                'Expected a newline after content',
                linenum=self._linenum)

        self._linenum += len(lines)""",
     """            raise DiffXParseError(
                'Expected a newline after content',
                linenum=self._linenum + len(content))

        self._linenum += len(lines)"""),
    ('writer-validates-order-after-writing', ['C09'], W,
     """        section = self._build_section(section_level, section_name)
        self._validate_section(section)

        # Write the header before touching any state, so that a failure to
        # write it leaves the writer as it was.
        self._write_section_header(section=section,
                                   encoding=encoding,
                                   **options)
""",
     """        section = self._build_section(section_level, section_name)
        prev_section = self._prev_section

        # Write the header before touching any state, so that a failure to
        # write it leaves the writer as it was.
        self._write_section_header(section=section,
                                   encoding=encoding,
                                   **options)
        self._prev_section = prev_section
        self._validate_section(section)
        self._prev_section = section
"""),
    ('table-change-may-follow-change-preamble', ['C09', 'C10'], S,
     """    Section.CHANGE_PREAMBLE: {
        Section.CHANGE_META,
        Section.FILE,
    },""",
     """    Section.CHANGE_PREAMBLE: {
        Section.CHANGE_META,
        Section.FILE,
        Section.CHANGE,
    },"""),
    ('table-file-may-follow-file', ['C09', 'C10'], S,
     """    Section.FILE: {
        Section.FILE_META,
    },""",
     """    Section.FILE: {
        Section.FILE_META,
        Section.FILE,
    },"""),
    ('reader-value-class-loses-slash', ['C11', 'C12'], R,
     "br'[A-Za-z0-9/_.-]+'", "br'[A-Za-z0-9_.-]+'"),
    ('reader-key-prefix-match', ['C11'], R,
     "self._HEADER_OPTION_KEY_RE.fullmatch(option_key)",
     "self._HEADER_OPTION_KEY_RE.match(option_key)"),
    ('stats-cached-when-present', ['C13'], O,
     """        for file_section in self.files:
            file_section.generate_stats()
""",
     """        for file_section in self.files:
            if 'stats' not in file_section.meta:
                file_section.generate_stats()
"""),
    ('stats-top-level-counts-files-wrong', ['C13'], O,
     "            stats['files'] += change_stats['files']\n",
     "            stats['files'] = max(stats['files'], change_stats['files'])\n"),
    ('bom-lookup-case-only', ['C15'], T,
     "            encoding = codecs.lookup(encoding).name\n",
     "            encoding = encoding.lower()\n"),
    ('read-until-skips-seek-near-chunk-end', ['C17', 'C01', 'C03'], R,
     "                fp.seek(i + 1 - len(chunk), os.SEEK_CUR)\n",
     "                if i + 2 != len(chunk) or len(chunk) < chunk_size:\n                    fp.seek(i + 1 - len(chunk), os.SEEK_CUR)\n"),
    ('default-options-shared', ['C18'], O,
     "        self.options = self.default_options.copy()\n",
     "        self.options = self.default_options if self.section_name == 'meta' else self.default_options.copy()\n"),
    ('default-value-not-copied', ['C18'], O,
     "            self._content = deepcopy(self.default_value)\n",
     "            self._content = self.default_value\n"),
    ('dom-writer-pops-from-tree-options', ['C18', 'C05'], DW,
     "        main_options = diffx.options.copy()\n",
     "        main_options = diffx.options\n"),
    ('option-stored-before-choice-check', ['C19'], P,
     """        if self.choices and value not in self.choices:
            raise DiffXOptionValueChoiceError(
                option=self.option_name,
                value=value,
                choices=self.choices)

        instance.options[self.option_name] = value""",
     """        instance.options[self.option_name] = value

        if self.choices and value not in self.choices:
            raise DiffXOptionValueChoiceError(
                option=self.option_name,
                value=value,
                choices=self.choices)"""),
    ('eq-ignores-diff-content', ['C19'], O,
     """            super(BaseDiffXContentSection, self).__eq__(other) and
            self.content == other.content""",
     """            super(BaseDiffXContentSection, self).__eq__(other) and
            (self.section_name == 'diff' or self.content == other.content)"""),
    ('ctor-accepts-any-attribute-again', ['C19'], O,
     """                if not isinstance(getattr_static(cls, name, None),
                                  (OptionProperty, SubsectionAttrProperty,
                                   property)):
                    raise AttributeError(name)
""",
     ""),
    ('reader-short-length-check-dropped', ['C07', 'C08'], R,
     "                if not isinstance(length, int) or length < 0:\n",
     "                if not isinstance(length, int):\n"),
    ('dom-reader-drops-diff-type', ['C05', 'C06'], DR,
     "        options.pop('length', None)\n",
     "        options.pop('length', None)\n        if options.get('type') == 'text':\n            options.pop('type')\n"),
    ('metadata-not-dict-error-linenum-off', ['C08'], R,
     """                            'JSON metadata must be a dictionary, not %s'
                            % type(section['metadata']).__name__,
                            linenum=linenum)""",
     """                            'JSON metadata must be a dictionary, not %s'
                            % type(section['metadata']).__name__,
                            linenum=linenum + 10 ** 6)"""),
    ('reader-content-decode-error-escapes', ['C08', 'C07'], R,
     "            except UnicodeError as e:\n                raise DiffXParseError(",
     "            except UnicodeTranslateError as e:\n                raise DiffXParseError("),
    ('writer-dos-newline-appended-as-lf', ['C01', 'C02'], W,
     "        if not content.endswith(newline):\n            content += newline\n",
     "        if not content.endswith(newline):\n            content += newline[-1:] if len(newline) == 2 else newline\n"),
]
