#!/bin/sh
# usage: commit_fix.sh <message-file>   (commits /repo changes only if the pinned suite passes)
cd /repo || exit 2
out=$(/venv/bin/python -m pytest -q -p no:cacheprovider 2>&1 | tail -1)
echo "$out"
case "$out" in
  "176 passed"*) git commit -qa -F "$1" && git log --oneline | head -1 ;;
  *) echo "NOT COMMITTED: tests do not pass"; exit 1 ;;
esac
