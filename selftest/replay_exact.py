#!/venv/bin/python
"""Replay self-test: a violation found on a broken scratch copy is written as
a minimised replay file; replaying that file in fresh interpreters (twice,
under different hash seeds) must reproduce the same signature and the same
event-log digest; replaying it against the unbroken tree must not reproduce.

  selftest/replay_exact.py [mutant-name-substring ...]   (default: 4 mutants)
"""
import glob
import os
import shutil
import subprocess
import sys
import tempfile

HERE = os.path.dirname(os.path.dirname(os.path.abspath(__file__)))
sys.path.insert(0, os.path.dirname(os.path.abspath(__file__)))
from mutants import MUTANTS  # noqa

DEFAULT = ['reader-strips-all-leading-spaces', 'writer-validates-order',
           'dom-writer-pops-from-tree-options', 'read-until-skips-seek',
           'reader-unterminated-header', 'stats-cached-when-present']


def main():
    want = sys.argv[1:] or DEFAULT
    bad = 0

    for name, props, relpath, old, new in MUTANTS:
        if not any(w in name for w in want):
            continue

        scratch = tempfile.mkdtemp(prefix='verif_rp_')

        try:
            shutil.copytree('/repo/python', os.path.join(scratch, 'python'),
                            ignore=shutil.ignore_patterns('__pycache__'))
            path = os.path.join(scratch, 'python', relpath)
            src = open(path).read()

            if src.count(old) != 1:
                print('%s: STALE' % name)
                bad += 1
                continue

            open(path, 'w').write(src.replace(old, new))
            env = dict(os.environ, VERIF_REPO=scratch, VERIF_BUDGET_S='10',
                       VERIF_EVIDENCE_DIR=os.path.join(scratch, 'ev'),
                       VERIF_REPLAY_DIR=os.path.join(scratch, 'rp'))
            subprocess.run(['/venv/bin/python',
                            os.path.join(HERE, 'check.py'), '--property',
                            props[0], '--tier', 'quick'], env=env,
                           stdout=subprocess.PIPE, stderr=subprocess.STDOUT)
            files = sorted(glob.glob(os.path.join(scratch, 'rp', '*.json')))

            if not files:
                print('%s: no replay file produced' % name)
                bad += 1
                continue

            for f in files:
                outs = []

                for hs in ('0', '7', 'random'):
                    e2 = dict(env, PYTHONHASHSEED=hs)
                    r = subprocess.run(
                        ['/venv/bin/python', os.path.join(HERE, 'check.py'),
                         '--replay', f], env=e2, stdout=subprocess.PIPE,
                        stderr=subprocess.STDOUT)
                    txt = r.stdout.decode()
                    outs.append((r.returncode, 'MATCH' in txt,
                                 [l for l in txt.splitlines()
                                  if 'event-log digest' in l]))

                clean = subprocess.run(
                    ['/venv/bin/python', os.path.join(HERE, 'check.py'),
                     '--replay', f],
                    env=dict(os.environ, VERIF_REPO='/repo'),
                    stdout=subprocess.PIPE, stderr=subprocess.STDOUT)
                ok = all(o[0] == 1 and o[1] for o in outs) and \
                    len(set(str(o[2]) for o in outs)) == 1 and \
                    clean.returncode == 0
                size = os.path.getsize(f)
                print('%s: %s (%d bytes) replays exactly x3: %s; on the '
                      'unbroken tree: %s' % (
                          name, os.path.basename(f), size,
                          all(o[0] == 1 and o[1] for o in outs),
                          'not reproduced' if clean.returncode == 0
                          else 'REPRODUCED'))

                if not ok:
                    bad += 1
        finally:
            shutil.rmtree(scratch, ignore_errors=True)

    print('REPLAY %s' % ('OK' if not bad else 'FAILED'))
    return 1 if bad else 0


if __name__ == '__main__':
    sys.exit(main())
