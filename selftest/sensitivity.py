#!/venv/bin/python
"""Sensitivity self-test: break each property on purpose in a scratch copy
and confirm the quick tier of the targeted check reports a VIOLATION.

For every mutant in selftest/mutants.py: copy /repo/python to a scratch
directory outside /repo and /verif, apply the edit, confirm the pinned suite
still passes there (otherwise the mutant is useless and reported as such),
run the targeted checks with VERIF_REPO=<scratch>, expect exit 1, remove the
copy.

  selftest/sensitivity.py [--budget S] [--no-tests] [name-substring ...]
"""
import os
import shutil
import subprocess
import sys
import tempfile

HERE = os.path.dirname(os.path.dirname(os.path.abspath(__file__)))
sys.path.insert(0, os.path.dirname(os.path.abspath(__file__)))
from mutants import MUTANTS  # noqa


def main():
    args = sys.argv[1:]
    budget = '12'
    run_tests = True

    if '--budget' in args:
        i = args.index('--budget')
        budget = args[i + 1]
        del args[i:i + 2]

    if '--no-tests' in args:
        args.remove('--no-tests')
        run_tests = False

    results = []

    for name, props, relpath, old, new in MUTANTS:
        if args and not any(a in name for a in args):
            continue

        scratch = tempfile.mkdtemp(prefix='verif_mut_')

        try:
            shutil.copytree('/repo/python', os.path.join(scratch, 'python'),
                            ignore=shutil.ignore_patterns('__pycache__'))
            path = os.path.join(scratch, 'python', relpath)

            with open(path) as fp:
                src = fp.read()

            if src.count(old) != 1:
                results.append((name, 'STALE (anchor text occurs %d times)'
                                % src.count(old), {}))
                continue

            with open(path, 'w') as fp:
                fp.write(src.replace(old, new))

            if run_tests:
                t = subprocess.run(
                    ['/venv/bin/python', '-m', 'pytest', '-q', '-x',
                     '-p', 'no:cacheprovider', 'pydiffx'],
                    cwd=os.path.join(scratch, 'python'),
                    stdout=subprocess.PIPE, stderr=subprocess.STDOUT,
                    env=dict(os.environ, PYTHONDONTWRITEBYTECODE='1'),
                    timeout=600)
                tail = t.stdout.decode().strip().splitlines()[-1]

                if t.returncode != 0:
                    results.append((name, 'USELESS (pinned tests fail: %s)'
                                    % tail, {}))
                    continue

            verdicts = {}

            for pid in props:
                env = dict(os.environ, VERIF_REPO=scratch,
                           VERIF_BUDGET_S=budget,
                           VERIF_EVIDENCE_DIR=os.path.join(scratch, 'ev'),
                           VERIF_REPLAY_DIR=os.path.join(scratch, 'rp'))
                c = subprocess.run(
                    ['/venv/bin/python', os.path.join(HERE, 'check.py'),
                     '--property', pid, '--tier', 'quick'],
                    stdout=subprocess.PIPE, stderr=subprocess.STDOUT,
                    env=env, timeout=1200)
                out = c.stdout.decode()
                sig = [l for l in out.splitlines()
                       if l.startswith('violation:')]
                verdicts[pid] = (c.returncode,
                                 sig[0][11:90] if sig else '')

                # replay files of mutant runs are noise
                for l in out.splitlines():
                    if l.startswith('VIOLATION') and 'replay=' in l:
                        p = l.split('replay=')[1].strip()

                        if os.path.exists(p):
                            os.remove(p)

            killed = verdicts[props[0]][0] == 1
            results.append((name, 'KILLED' if killed else 'SURVIVED',
                            verdicts))
        finally:
            shutil.rmtree(scratch, ignore_errors=True)

        n, v, d = results[-1]
        print('%-46s %s' % (n, v))

        for pid, (rc, sig) in d.items():
            print('      %s rc=%d %s' % (pid, rc, sig))

        sys.stdout.flush()

    bad = [r for r in results if r[1] != 'KILLED' and
           not r[1].startswith('USELESS')]
    useless = [r for r in results if r[1].startswith('USELESS')]
    print('SENSITIVITY: %d mutants; %d already caught by the pinned suite '
          '(not counted); %d killed by their primary check; %d NOT killed'
          % (len(results), len(useless),
             len(results) - len(bad) - len(useless), len(bad)))

    for n, v, d in bad:
        print('   %s: %s' % (n, v))

    # restore the evidence files written with VERIF_REPO pointing elsewhere
    return 1 if bad else 0


if __name__ == '__main__':
    sys.exit(main())
