#!/venv/bin/python
"""Determinism self-test: one seed = one execution.

For every claimed property, N run indices are generated and executed
  (a) twice in fresh interpreters with PYTHONHASHSEED=0,
  (b) in fresh interpreters with PYTHONHASHSEED=1 and =random,
  (c) split over several processes (worker counts 1 / 4 / 16),
and the per-run lines (scenario digest, event-log digest, state digest,
verdicts, probes) must agree pairwise.  Exit 0 iff everything agrees.

  selftest/determinism.py [N per property, default 300] [props ...]
"""
import os
import subprocess
import sys
from concurrent.futures import ThreadPoolExecutor

HERE = os.path.dirname(os.path.dirname(os.path.abspath(__file__)))
PROPS = ['C01', 'C02', 'C03', 'C04', 'C05', 'C06', 'C07', 'C08', 'C09',
         'C10', 'C11', 'C12', 'C13', 'C15', 'C17', 'C18', 'C19']


def run(prop, start, count, hashseed):
    env = dict(os.environ)
    env.pop('PYTHONHASHSEED', None)

    if hashseed is not None:
        env['PYTHONHASHSEED'] = str(hashseed)

    env['VERIF_START'] = str(start)
    p = subprocess.run(
        ['/venv/bin/python', '-c',
         'import sys, os; sys.argv = ["check.py", "--property", %r, '
         '"--digests", %r]; sys.path.insert(0, %r); '
         'os.environ.setdefault("PYTHONHASHSEED", "random"); '
         'import runpy; runpy.run_path(%r, run_name="__main__")'
         % (prop, str(count), HERE, os.path.join(HERE, 'check.py'))],
        env=env, stdout=subprocess.PIPE, stderr=subprocess.PIPE,
        timeout=3600)
    return p.stdout.decode().splitlines()


def split_run(prop, n, parts, hashseed):
    per = (n + parts - 1) // parts
    jobs = [(prop, i * per, min(per, n - i * per), hashseed)
            for i in range(parts) if i * per < n]

    with ThreadPoolExecutor(max_workers=16) as ex:
        res = list(ex.map(lambda j: run(*j), jobs))

    out = []

    for r in res:
        out.extend(r)

    return out


def main():
    n = int(sys.argv[1]) if len(sys.argv) > 1 else 300
    props = sys.argv[2:] or PROPS
    bad = 0

    for prop in props:
        base = split_run(prop, n, 4, 0)
        variants = {
            'same seed again, hash seed 0, 1 process': split_run(prop, n, 1, 0),
            'hash seed 1, 16 processes': split_run(prop, n, 16, 1),
            'hash seed random, 4 processes': split_run(prop, n, 4, 'random'),
        }

        if len(base) != n:
            print('%s: expected %d lines, got %d' % (prop, n, len(base)))
            bad += 1

        for name, lines in variants.items():
            diff = [i for i, (a, b) in enumerate(zip(base, lines)) if a != b]

            if diff or len(lines) != len(base):
                bad += 1
                print('%s: DIVERGENCE under "%s" at run(s) %s' % (
                    prop, name, diff[:5]))

                for i in diff[:2]:
                    print('   ', base[i][:300])
                    print('   ', lines[i][:300])

        harness = [l for l in base if ' HARNESS ' in l]

        if harness:
            bad += 1
            print('%s: harness errors: %s' % (prop, harness[:2]))

        print('%s: %d runs x 4 configurations compared' % (prop, len(base)))
        sys.stdout.flush()

    print('DETERMINISM %s' % ('OK' if not bad else 'FAILED'))
    return 1 if bad else 0


if __name__ == '__main__':
    sys.exit(main())
