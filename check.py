#!/venv/bin/python
"""Single entry point of the deterministic-simulation checks.

  check.py --setup
  check.py --property C07 --tier quick|thorough
  check.py --replay replays/C07-....json
  check.py --scenario file.json        (execute one scenario, print outcome)

Exit codes: 0 = property held on everything explored (KNOWN-FINDING lines
allowed); 1 = violation not listed in known_findings.json (VIOLATION line);
2 = harness error / timeout (HARNESS-ERROR line; never a verdict).
"""

import argparse
import json
import os
import sys

HERE = os.path.dirname(os.path.abspath(__file__))


def reexec_deterministic():
    # one fixed hash seed so that no set/dict order anywhere (ours or the
    # library's) can differ between a run and its replay
    if os.environ.get('PYTHONHASHSEED') is None:
        env = dict(os.environ)
        env['PYTHONHASHSEED'] = '0'

        flags = []

        # a replay file names the hash seed and the interpreter flags of
        # the process that found it
        if '--replay' in sys.argv[:-1]:
            try:
                with open(sys.argv[sys.argv.index('--replay') + 1]) as fp:
                    rf = json.load(fp)

                env['PYTHONHASHSEED'] = str(int(rf.get('hashseed', 0)))
                flags = [f for f in str(rf.get('pyflags', '')).split()
                         if f in ('-O', '-OO', '-b', '-bb')]
                env['VERIF_PYFLAGS'] = ' '.join(flags)
            except Exception:
                pass

        env['PYTHONDONTWRITEBYTECODE'] = '1'
        os.execve(sys.executable, [sys.executable] + flags + sys.argv, env)


def main():
    reexec_deterministic()
    sys.dont_write_bytecode = True
    sys.path.insert(0, HERE)
    ap = argparse.ArgumentParser()
    ap.add_argument('--setup', action='store_true')
    ap.add_argument('--property')
    ap.add_argument('--tier', default=os.environ.get('VERIF_TIER', 'quick'),
                    choices=['quick', 'thorough'])
    ap.add_argument('--replay')
    ap.add_argument('--scenario')
    ap.add_argument('--digests', type=int, help='print one digest line per run index in [0, N) of --property (determinism self-test)')
    ap.add_argument('--mkreplay', help='execute --scenario and store the first violation as a replay file at this path')
    a = ap.parse_args()

    from dsim import lib, runner

    if a.setup:
        L = lib.load()
        import dsim.refmodel
        print('setup ok: python %s, pydiffx from %s, tree %s' % (
            sys.version.split()[0], L.root, lib.tree_sha256()[:12]))
        return 0

    if a.replay:
        return runner.replay_file(a.replay)

    if a.scenario:
        with open(a.scenario) as fp:
            scn = json.load(fp)

        if 'scenario' in scn:
            scn = scn['scenario']

        out = runner.run_scenario(scn)

        if a.mkreplay and out.violations:
            v = out.violations[0]
            rf = {'property': scn['property'],
                  'signature': {'oracle': v['oracle'], 'detail': v['detail']},
                  'violation': v, 'scenario': scn, 'digest': out.digest,
                  'tree_sha256': lib.tree_sha256()}

            with open(a.mkreplay, 'w') as fp:
                json.dump(rf, fp, indent=1, sort_keys=True)
                fp.write('\n')

        print(json.dumps({'violations': out.violations,
                          'probes': out.probes, 'faults': out.faults,
                          'digest': out.digest,
                          'nontrivial': out.nontrivial}, indent=1,
                         sort_keys=True))
        return 1 if out.violations else 0

    if not a.property:
        ap.error('--property required')

    if a.digests:
        import hashlib
        import signal
        L = lib.load()
        mod = runner.prop_module(a.property.upper())
        signal.signal(signal.SIGVTALRM, runner._alarm)
        master = int(os.environ.get('VERIF_SEED', '1'))
        start = int(os.environ.get('VERIF_START', '0'))

        for i in range(start, start + a.digests):
            scn = runner.make_scenario(mod, a.tier, master, i)
            out, err = runner.execute_guarded(mod, scn, L)
            h = hashlib.sha256(json.dumps(scn, sort_keys=True).encode())

            if err is not None:
                print(i, h.hexdigest()[:16], 'HARNESS', err[:80])
                continue

            sig = sorted('%s/%s' % (v['oracle'], v['detail'])
                         for v in out.violations)
            st = hashlib.sha256(repr(sorted(out.states)).encode())
            print(i, h.hexdigest()[:16], out.digest[:16] if out.digest
                  else None, st.hexdigest()[:8], out.evals, out.nontrivial,
                  out.discarded, sig, sorted(out.probes.items()))

        return 0

    return runner.run_check(a.property.upper(), a.tier)


if __name__ == '__main__':
    try:
        rc = main()
    except SystemExit:
        raise
    except BaseException:
        import traceback
        traceback.print_exc()
        print('HARNESS-ERROR')
        rc = 2

    sys.stdout.flush()
    sys.exit(rc)
