#!/venv/bin/python
"""tools/keepseed.py PROP VARIANT [--budget S] [other props to try ...]
Confirms /tmp/seed_PROP/OUT/VARIANT (via tools/tryseed.py) and, if the
change applies, passes the pinned suite, and its demo fails with / passes
without it, stores it as /verif/seeded/PROP-VARIANT/ with meta.json."""
import json
import os
import shutil
import subprocess
import sys

HERE = os.path.dirname(os.path.dirname(os.path.abspath(__file__)))


def main():
    args = sys.argv[1:]
    budget = '15'

    if '--budget' in args:
        i = args.index('--budget')
        budget = args[i + 1]
        del args[i:i + 2]

    prefix = '/tmp/seed_'
    tag = ''

    if '--src-prefix' in args:
        i = args.index('--src-prefix')
        prefix = args[i + 1]
        del args[i:i + 2]

    if '--tag' in args:
        i = args.index('--tag')
        tag = args[i + 1]
        del args[i:i + 2]

    prop, var = args[0], args[1]
    others = args[2:]
    src = '%s%s/OUT/%s' % (prefix, prop, var)
    props = [prop] + [p for p in others if p != prop]
    r = subprocess.run(['/venv/bin/python',
                        os.path.join(HERE, 'tools', 'tryseed.py'), src,
                        '--budget', budget] + props,
                       stdout=subprocess.PIPE, stderr=subprocess.STDOUT,
                       timeout=7200)
    txt = r.stdout.decode()

    try:
        res = json.loads(txt[txt.index('{'):])
    except ValueError:
        print(txt)
        return 2

    ok = res.get('applies') and res.get('tests_pass') and \
        res.get('demo_clean_rc') == 0 and res.get('demo_changed_rc', 0) != 0
    print('%s-%s%s confirmed=%s tests=%s demo(clean,changed)=(%s,%s)' % (
        prop, tag, var, ok, res.get('tests'), res.get('demo_clean_rc'),
        res.get('demo_changed_rc')))

    for p, v in res.get('checks', {}).items():
        print('    %s rc=%d %s' % (p, v['rc'], v['violations'][:1]))

    if not ok:
        return 1

    dst = os.path.join(HERE, 'seeded', '%s-%s%s' % (prop, tag, var))
    os.makedirs(dst, exist_ok=True)

    for fn in ('patch.diff', 'demo.py', 'note.txt'):
        if os.path.exists(os.path.join(src, fn)):
            shutil.copy(os.path.join(src, fn), os.path.join(dst, fn))

    note = ''

    if os.path.exists(os.path.join(src, 'note.txt')):
        with open(os.path.join(src, 'note.txt')) as fp:
            note = fp.read().strip()

    meta = {
        'breaks_property': prop,
        'origin': 'written by a fresh sub-agent given only the text of the '
                  'property and its own scratch worktree of /repo',
        'needs_to_manifest': note,
        'confirmed': {
            'applies_with_git_apply': True,
            'pinned_suite_with_change': res.get('tests'),
            'demo_exit_without_change': res.get('demo_clean_rc'),
            'demo_exit_with_change': res.get('demo_changed_rc'),
            'demo_message': res.get('demo_msg'),
        },
        'ran': ['tools/tryseed.py %s --budget %s %s  (scratch copy of '
                '/repo/python + git apply; pytest there; demo.py against '
                '/repo and the copy; quick checks with VERIF_REPO=<copy>)'
                % (src, budget, ' '.join(props))],
        'detected_by': {p: {'exit': v['rc'], 'violations': v['violations']}
                        for p, v in res.get('checks', {}).items()},
    }

    with open(os.path.join(dst, 'meta.json'), 'w') as fp:
        json.dump(meta, fp, indent=1, sort_keys=True)
        fp.write('\n')

    return 0


if __name__ == '__main__':
    sys.exit(main())
