#!/venv/bin/python
"""Regenerates /verif/MANIFEST.json from the property modules."""
import importlib
import json
import os
import sys

HERE = os.path.dirname(os.path.dirname(os.path.abspath(__file__)))
sys.path.insert(0, HERE)

CLAIMED = ['C01', 'C02', 'C03', 'C04', 'C05', 'C06', 'C07', 'C08', 'C09',
           'C10', 'C11', 'C12', 'C13', 'C15', 'C17', 'C18', 'C19']

TEXT = {
 'C01': ('seeded deterministic simulation: writer actor -> simulated storage -> reader actor (1-3 interleaved pipelines, drawn block size / stream kind incl. real files, gzip, mmap; readers that follow the file while it is written, stepped against the writer by the seeded schedule; short reads inside headers), call-log oracle from an independent reference model',
         'exploration: sampling of call histories x encodings x knobs; a clean batch is evidence over the explored seeds, not proof', '5 (C01)'),
 'C02': ('seeded deterministic simulation: every write() of the writer actor traced on the simulated handle; byte-for-byte comparison with an independent spec serializer + direct grammar checks',
         'exploration over accepted call histories; the oracle is a second implementation of the specification', '5 (C02)'),
 'C03': ('seeded deterministic simulation: foreign-producer stub -> simulated storage (single spec-defect faults from a catalogue, each validated against the reference parser) -> reader actor; independent reference parser as oracle',
         'exploration; verdict is ultimately a function of the stored bytes (fit of the technique: weak-moderate, stated in DESIGN.md)', '5 (C03)'),
 'C04': ('seeded deterministic simulation of nesting histories; three comparisons per run (writer vs reference serializer, reader on reference bytes vs model, end to end) against an encoding-scope model',
         'exploration of push/pop histories of the encoding scope up to 12 containers', '5 (C04)'),
 'C05': ('seeded deterministic simulation: DOM builder actor -> to_bytes -> simulated storage -> from_stream; tree model + spec serializer + documented normalisation as oracle; lists edited in place, rejected add_* calls and a tree-shape oracle; second parse after editing the first; DiffX subclasses as loaders',
         'exploration over trees built through the public API; conditional on to_bytes() succeeding', '5 (C05)'),
 'C06': ('seeded deterministic simulation: editor actor load -> store -> load -> store over canonical (writer, object model, reference serializer) and foreign-producer files, through drawn kinds of stream, optionally inspecting every attribute before saving; byte identity / content equality per reference parser / fixed point',
         'exploration', '5 (C06)'),
 'C07': ('deterministic simulation with fault injection: producer crash / torn write / transfer cut at EVERY byte of each generated file, reader overtaking writer, a long-lived reader following the growing file under a seeded writer/reader schedule, length faults; prefix-of-intact-records oracle',
         'fault_enumeration: the cut sweep is complete per file (every crash point 0..len) for files up to 4000 bytes whose sweep fits a deterministic cost bound (counted in the evidence probes), thinned or gridded otherwise; files and length faults are sampled', '6 (C07)'),
 'C08': ('deterministic simulation with fault injection: byte/token/line-level storage corruption, random bytes, DiffX-shaped soup, metadata nested beyond the recursion limit, injected read / seek errors, forward-only streams, a sniffing reader_cls hook; three consumers (stepped reader - also rewound and iterated again -, from_bytes, from_stream with close tracking over drawn kinds of stream); error-contract oracle',
         'exploration of the corruption space; termination enforced by a stream-event cap and a CPU cap', '6 (C08)'),
 'C09': ('deterministic simulation with fault injection on the caller side: arbitrary call sequences with rejected calls (38 bad-argument variants) and injected write errors; hierarchy model, zero-write atomicity on the traced handle, twin run of accepted calls only; exhaustive sweep of short call sequences',
         'exploration + exhaustive sub-space (all call sequences up to a bounded length)', '6 (C09)'),
 'C10': ('seeded simulation of a byzantine producer emitting section ids in arbitrary order (with header variations, blank lines, very long headers), preceded by noise actors that share the process-global tables (a writer whose calls are partly rejected, a DOM user); short reads inside header lines, the same reader iterated twice, legal sequences also through the object-model loader with a reader_cls hook; successor relation typed in from the spec as oracle; process-global-state guard; exhaustive sweep of every candidate id after every legal prefix up to a bounded length',
         'exploration + exhaustive sub-space; verdict is a function of the id sequence (fit: weak-moderate)', '6 (C10)'),
 'C11': ('seeded storage damage confined to the option string of one header; reference header grammar as oracle; the refusing reader object iterated again; exhaustive sweep of all option strings up to a bounded length over a 16-symbol alphabet',
         'exploration + exhaustive sub-space; verdict is a function of one line (fit: weak, stated in DESIGN.md)', '6 (C11)'),
 'C12': ('seeded simulation of version skew: a newer producer adds unknown options (also longer than a read-ahead block, read through short-reading streams) to headers of well-formed files; metamorphic oracle (records + exactly the added keys)',
         'exploration', '5 (C12)'),
 'C13': ('seeded deterministic simulation: analyst actor running generate_stats at file/change/tree level interleaved with edits on trees with ground-truth diffs; stats model applied to the snapshot before each step',
         'exploration', '7 (C13)'),
 'C15': ('seeded simulation with the codec-name spelling as a per-run configuration knob (catalogue of ~97 stateless codecs / ~1380 spellings computed from the platform) over the C01/C02 pipeline + direct newline-function checks',
         'exploration (configuration swarm)', '5 (C15)'),
 'C17': ('deterministic simulation with re-chunking: (header padding 0..2B) x (read-ahead block size 1..2B, > file) x (stream kind) per generated file; metamorphic oracle + reference parser; full grid in the thorough tier',
         'fault_enumeration: thorough enumerates the complete 193 x 194 grid per file; quick samples it', '6 (C17)'),
 'C18': ('deterministic simulation: 2-4 DOM actors x 1-2 live trees interleaved step by step by a seeded schedule; deep-snapshot isolation (across trees and within a tree) / observer-purity invariants after EVERY step, class-level defaults, shared tables and a fresh DiffX() included; reused DiffXDOMReader / DiffXDOMWriter objects (failing parses in between) compared with fresh ones; file sections cloned by deepcopy / pickle between trees; argument modes (subclass instances, one shared object)',
         'exploration of interleavings of API-call-sized steps', '7 (C18)'),
 'C19': ('deterministic simulation with rejected assignments as faults: typed attribute table (from the docs) x right/wrong values, unknown constructor attributes, whole-tree atomicity snapshots; equality probes against snapshot equality with twin trees and single-field perturbations',
         'exploration', '7 (C19)'),
}
NOTE = ('trusted base: the reference model in dsim/refmodel.py (a second reading of docs/spec), the simulated stream handles, '
        'CPython; reader checks assume a single read(length) call returns the content (no short reads on intact streams), '
        'seekable input, blocking writes')


def main():
    checks = []
    global NFIXED, NSEEDED

    with open(os.path.join(HERE, 'known_findings.json')) as fp:
        NFIXED = len(set(f['commit'] for f in json.load(fp)['fixed']))

    NSEEDED = len([d for d in os.listdir(os.path.join(HERE, 'seeded'))
                   if os.path.isdir(os.path.join(HERE, 'seeded', d))])

    for pid in CLAIMED:
        mod = importlib.import_module('dsim.props.' + pid.lower())
        tech, level_text, ref = TEXT[pid]
        checks.append({
            'property_id': pid,
            'quick_cmd': '/venv/bin/python /verif/check.py --property %s --tier quick' % pid,
            'thorough_cmd': '/venv/bin/python /verif/check.py --property %s --tier thorough' % pid,
            'evidence_file': '/verif/evidence/%s.json' % pid,
            'replay_cmd_template': '/venv/bin/python /verif/check.py --replay {path}',
            'engine': 'dsim',
            'level_claimed': {'category': mod.LEVEL, 'text': level_text,
                              'design_ref': 'DESIGN.md section ' + ref},
            'level_note': NOTE,
            'technique': tech,
        })

    man = {
        'version': 1,
        'setup_cmd': '/venv/bin/python /verif/check.py --setup',
        'hooks': {
            'guard': 'BEANBAGINC_DIFFX_VERIF',
            'enable': 'no hooks in /repo: every seam the simulator needs (fp.write / fp.read / fp.seek / close, DiffXReader._read_until(chunk_size=), DiffXDOMReader.reader_cls) already exists; the guard name is reserved and unused',
            'baseline_off_cmd': 'cd /repo && /venv/bin/python -m pytest -ra -q -p no:cacheprovider --timeout=900 --continue-on-collection-errors',
            'source_commits': [],
            'add_only': True,
        },
        'engines': [{
            'name': 'dsim', 'path': '/verif/dsim',
            'serves_properties': CLAIMED,
            'kind_free_text': 'hand-written deterministic simulator: own PRNG (splitmix64), simulated storage and stream handles with a fault plan, seeded scheduler over cooperative actors (one API call / one reader next() per step), independent reference model of the DiffX spec, ddmin shrinker, scenario JSON = replay file; 16 forked workers, of which a share runs in child processes under another PYTHONHASHSEED and under the interpreter flags -O -bb (replay files record both); stream variants (short reads, seek() returning None, forward-only, None-returning sinks, data not at offset 0), consumers that edit yielded records, shadow readers / writers alive alternately with the observed one, reused reader / DOM reader / DOM writer objects, subclassed argument values',
        }],
        'checks': checks,
        'notes': 'VERIF_SEED = master seed (default 1); VERIF_BUDGET_S / VERIF_RUNS override the tier budget; VERIF_NO_LANES=1 keeps everything in one process; exit 0 ok / 1 VIOLATION / 2 HARNESS-ERROR. known_findings.json lists the open findings (C07 short read, two shapes of one root cause; C19 equality blurs JSON number typing) and the %d repairs committed to /repo with their regression scenarios (regress/), which every run of that property check re-executes. seeded/ holds %d independently written breaking changes (7 rounds) with, per change, which checks report it (meta.json; DESIGN.md 12.5).' % (NFIXED, NSEEDED),
        'not_applicable': [
            {'property_id': 'C14', 'reason': 'get_unified_diff_hunks is a pure function of an in-memory list of lines: no stream, carried state, second party, schedule or fault for a simulator to control (its totals are exercised incidentally by C13; no claim)'},
            {'property_id': 'C16', 'reason': 'split_lines is a pure function of two byte strings; an algebraic identity with no schedule, clock, fault or interleaving in it (small-scope enumeration or proof would be the fitting technique)'},
            {'property_id': 'C20', 'reason': 'the Pygments lexer is a pure function of one string (regex lexer, no I/O, no state across calls)'},
        ],
    }

    with open(os.path.join(HERE, 'MANIFEST.json'), 'w') as fp:
        json.dump(man, fp, indent=1)
        fp.write('\n')


main()
