#!/venv/bin/python
"""Prints the markdown table of seeded changes and the checks that caught
them (from seeded/*/meta.json)."""
import glob
import json
import os

HERE = os.path.dirname(os.path.dirname(os.path.abspath(__file__)))
print('| seeded change | breaks | needs to manifest (first line of the note) | caught by (quick tier, <= 20 s) |')
print('|---|---|---|---|')

for d in sorted(glob.glob(os.path.join(HERE, 'seeded', '*'))):
    m = json.load(open(os.path.join(d, 'meta.json')))
    note = (m.get('needs_to_manifest') or '').strip().splitlines()
    first = note[0][:150] if note else ''
    caught = []

    for p, v in sorted(m['detected_by'].items()):
        if v['exit'] == 1:
            caught.append('%s (`%s`)' % (p, v['violations'][0].split(' / ')[0]
                                          if v['violations'] else ''))
        else:
            caught.append('%s: not caught' % p)

    print('| %s | %s | %s | %s |' % (os.path.basename(d),
                                     m['breaks_property'],
                                     first.replace('|', '/'),
                                     '; '.join(caught)))
