#!/bin/sh
# runs every claimed check of one tier, summarises exit codes
tier=${1:-quick}
for p in C01 C02 C03 C04 C05 C06 C07 C08 C09 C10 C11 C12 C13 C15 C17 C18 C19; do
  s=$(date +%s)
  /venv/bin/python /verif/check.py --property $p --tier $tier > /tmp/verif_$p.log 2>&1
  rc=$?
  e=$(date +%s)
  echo "$p rc=$rc $((e-s))s $(grep -c '^KNOWN-FINDING' /tmp/verif_$p.log) known  $(tail -1 /tmp/verif_$p.log)"
done
