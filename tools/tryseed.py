#!/venv/bin/python
"""Confirm a seeded change and run checks against it, in a scratch copy.

  tools/tryseed.py <dir with patch.diff + demo.py> [--budget S] PROP [PROP..]

1. copies /repo/python to a scratch directory, applies patch.diff there;
2. runs the pinned suite in the scratch copy (must pass);
3. runs demo.py against /repo (must exit 0) and against the scratch copy
   (must exit non-zero);
4. runs the quick tier of every listed property with VERIF_REPO=<scratch>
   and prints which of them report a VIOLATION;
5. removes the scratch copy.
(/repo itself is never modified, so background runs against /repo are not
disturbed; equivalent to git apply / run / git checkout.)
"""
import json
import os
import shutil
import subprocess
import sys
import tempfile

HERE = os.path.dirname(os.path.dirname(os.path.abspath(__file__)))


def main():
    args = sys.argv[1:]
    budget = '15'

    if '--budget' in args:
        i = args.index('--budget')
        budget = args[i + 1]
        del args[i:i + 2]

    d = os.path.abspath(args[0])
    props = args[1:]
    scratch = tempfile.mkdtemp(prefix='verif_seed_')
    res = {'dir': d, 'checks': {}}

    try:
        shutil.copytree('/repo/python', os.path.join(scratch, 'python'),
                        ignore=shutil.ignore_patterns('__pycache__'))
        a = subprocess.run(['git', 'apply', os.path.join(d, 'patch.diff')],
                           cwd=scratch, stdout=subprocess.PIPE,
                           stderr=subprocess.STDOUT)
        res['applies'] = a.returncode == 0

        if a.returncode != 0:
            # the change was written against an earlier commit of /repo
            # (repairs have moved a few context lines since): try again with
            # patch(1) and a little fuzz
            a2 = subprocess.run(['patch', '-p1', '--fuzz=3', '-s', '-i',
                                 os.path.join(d, 'patch.diff')],
                                cwd=scratch, stdout=subprocess.PIPE,
                                stderr=subprocess.STDOUT)
            res['applies'] = a2.returncode == 0
            res['applied_with_fuzz'] = a2.returncode == 0

        if not res['applies']:
            print(a.stdout.decode())
            print(json.dumps(res))
            return 2

        env = dict(os.environ, PYTHONDONTWRITEBYTECODE='1')
        t = subprocess.run(['/venv/bin/python', '-m', 'pytest', '-q',
                            '-p', 'no:cacheprovider', 'pydiffx'],
                           cwd=os.path.join(scratch, 'python'), env=env,
                           stdout=subprocess.PIPE, stderr=subprocess.STDOUT)
        res['tests'] = t.stdout.decode().strip().splitlines()[-1]
        res['tests_pass'] = t.returncode == 0
        demo = os.path.join(d, 'demo.py')

        if os.path.exists(demo):
            r0 = subprocess.run(['/venv/bin/python', demo, '/repo'], env=env,
                                stdout=subprocess.PIPE,
                                stderr=subprocess.STDOUT, timeout=300)
            r1 = subprocess.run(['/venv/bin/python', demo, scratch], env=env,
                                stdout=subprocess.PIPE,
                                stderr=subprocess.STDOUT, timeout=300)
            res['demo_clean_rc'] = r0.returncode
            res['demo_changed_rc'] = r1.returncode
            res['demo_msg'] = r1.stdout.decode().strip()[-300:]

        for pid in props:
            env2 = dict(env, VERIF_REPO=scratch, VERIF_BUDGET_S=budget,
                        VERIF_EVIDENCE_DIR=os.path.join(scratch, 'ev'),
                        VERIF_REPLAY_DIR=os.path.join(scratch, 'rp'))
            c = subprocess.run(
                ['/venv/bin/python', os.path.join(HERE, 'check.py'),
                 '--property', pid, '--tier', 'quick'],
                stdout=subprocess.PIPE, stderr=subprocess.STDOUT, env=env2,
                timeout=1800)
            out = c.stdout.decode()
            sig = [l[11:] for l in out.splitlines()
                   if l.startswith('violation:')]
            res['checks'][pid] = {'rc': c.returncode, 'violations': sig[:3]}
    finally:
        shutil.rmtree(scratch, ignore_errors=True)

    print(json.dumps(res, indent=1))
    return 0


if __name__ == '__main__':
    sys.exit(main())
