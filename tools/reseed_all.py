#!/venv/bin/python
"""Re-runs every kept seeded change (seeded/*/) against the *current* checks
and refreshes meta.json['detected_by'].  tools/reseed_all.py [--budget S] [--match REGEX] [--dry]
(--dry: report only, leave the meta.json files as they are)"""
import glob
import json
import os
import subprocess
import sys

HERE = os.path.dirname(os.path.dirname(os.path.abspath(__file__)))
budget = '20'

if '--budget' in sys.argv:
    budget = sys.argv[sys.argv.index('--budget') + 1]

missed = []
match = None

if '--match' in sys.argv:
    import re
    match = re.compile(sys.argv[sys.argv.index('--match') + 1])

for d in sorted(glob.glob(os.path.join(HERE, 'seeded', '*'))):
    if match is not None and not match.search(os.path.basename(d)):
        continue

    mp = os.path.join(d, 'meta.json')
    meta = json.load(open(mp))
    props = sorted(meta.get('detected_by', {})) or [meta['breaks_property']]

    if meta['breaks_property'] not in props:
        props.insert(0, meta['breaks_property'])

    r = subprocess.run(['/venv/bin/python',
                        os.path.join(HERE, 'tools', 'tryseed.py'), d,
                        '--budget', budget] + props,
                       stdout=subprocess.PIPE, stderr=subprocess.STDOUT)
    txt = r.stdout.decode()

    try:
        res = json.loads(txt[txt.index('{'):])
    except ValueError:
        print('%-10s could not be re-run: %s' % (os.path.basename(d),
                                                 txt[-200:]))
        missed.append(os.path.basename(d))
        continue

    ok = res.get('tests_pass') and res.get('demo_clean_rc') == 0 and \
        res.get('demo_changed_rc', 0) != 0
    meta['detected_by'] = {p: {'exit': v['rc'], 'violations': v['violations']}
                           for p, v in res['checks'].items()}
    meta['confirmed']['last_rechecked_ok'] = bool(ok)
    if '--dry' not in sys.argv:
        json.dump(meta, open(mp, 'w'), indent=1, sort_keys=True)

    caught = [p for p, v in res['checks'].items() if v['rc'] == 1]
    print('%-10s confirmed=%s caught by %s' % (os.path.basename(d), ok,
                                               caught))
    sys.stdout.flush()

    if not caught or not ok:
        missed.append(os.path.basename(d))

print('MISSED:', missed)
