"""Batch runner: seeded search over scenarios in forked workers, known
findings, shrinking, replay files, evidence."""

import concurrent.futures as cf
import faulthandler
import importlib
import json
import multiprocessing
import os
import signal
import sys
import time
import traceback

from dsim import lib, shrink
from dsim.pipe import scn_digest
from dsim.rng import Rng, derive_seed
from dsim.world import HarnessError, SimHang

VERIF = os.path.dirname(os.path.dirname(os.path.abspath(__file__)))
RUN_CPU_CAP_S = 20
NWORKERS = int(os.environ.get('VERIF_WORKERS', '16'))
SURVEY = bool(os.environ.get('VERIF_SURVEY'))
# Hash-seed lanes: the interpreter's string hash seed (PYTHONHASHSEED) fixes
# the iteration order of every set and of dicts keyed by hashes for a whole
# process.  The main process runs under PYTHONHASHSEED=0; a part of the
# random search runs in child processes under other hash seeds (derived from
# VERIF_SEED), so that a result that depends on that order is explored
# under more than one.  A replay file records the hash seed it needs.
LANE = os.environ.get('VERIF_LANE')
# A lane may also run under other interpreter flags: -O (asserts and
# __debug__ blocks stripped) and -bb (str(bytes) / bytes-vs-str comparison
# raise BytesWarning) - environments in which the library is used and in
# which the properties are stated no differently.  (-W error is not among
# them: emitting a warning is legitimate behaviour.)
LANES = {'quick': [(4, 1, ['-O', '-bb'])],
         'thorough': [(3, 1, ['-O', '-bb']), (3, 2, [])]}   # (workers, n, flags)

DEFAULTS = {
    'quick': {'runs': 10 ** 9, 'budget_s': 20.0, 'chunk': 100},
    'thorough': {'runs': 10 ** 9, 'budget_s': 360.0, 'chunk': 400},
}


def prop_module(pid):
    return importlib.import_module('dsim.props.' + pid.lower())


def signature(v):
    return (v['oracle'], v['detail'])


# --------------------------------------------------------------------------
# known findings
# --------------------------------------------------------------------------

def load_findings():
    p = os.path.join(VERIF, 'known_findings.json')

    if not os.path.exists(p):
        return {'open': [], 'fixed': []}

    with open(p) as fp:
        return json.load(fp)


def open_findings(pid):
    return [f for f in load_findings().get('open', ())
            if f['property'] == pid]


def matches_finding(v, findings):
    for f in findings:
        if v['oracle'] == f['oracle'] and v['detail'] == f['detail']:
            return f

    return None


# --------------------------------------------------------------------------
# one run
# --------------------------------------------------------------------------

def _alarm(signum, frame):
    raise SimHang()


def make_scenario(mod, tier, master, idx):
    seed = derive_seed(master, mod.ID, tier, idx)
    rng = Rng(seed)
    from dsim import gen
    gen.reset_state()
    cls = rng.weighted([(w, c) for c, w in mod.CLASSES])
    scn = mod.generate(rng, tier, cls)
    scn.update({'property': mod.ID, 'tier': tier, 'master_seed': master,
                'run': idx, 'seed': seed, 'class': cls})
    return scn


_GUARD = None


def execute_guarded(mod, scn, L):
    """Returns (outcome, harness_error_text)."""
    global _GUARD

    if _GUARD is None:
        from dsim import globals_guard
        _GUARD = globals_guard.Guard(L)

    signal.setitimer(signal.ITIMER_VIRTUAL, RUN_CPU_CAP_S)

    try:
        out = mod.execute(scn, L)
        changed = _GUARD.check_and_restore()

        if changed:
            # the run mutated a table / class-level default shared by every
            # user in the process; it is reported where it happened and
            # undone, so that no later run depends on it
            out.probe('process_global_state_changed')
            tables = [c for c in changed if c in (
                'VALID_SECTION_STATES', 'CONTENT_SECTIONS', 'META_SECTIONS',
                'PREAMBLE_SECTIONS')]

            # a verdict only where the statement covers it: C18 (no shared
            # mutable state, class-level defaults included) and the section
            # hierarchy tables for the two properties that are defined by
            # them (C09 writer order, C10 reader order); elsewhere the state
            # is restored and only counted
            dom = [c for c in changed if c.startswith('pydiffx.dom.')]

            if (mod.ID == 'C18' and (dom or tables)) or \
               (mod.ID in ('C09', 'C10') and tables):
                out.violate('%s.process-global-state-mutated' % mod.ID,
                            (tables or dom)[0].rsplit('.', 2)[-1]
                            if not tables else tables[0],
                            {'changed': sorted(set(changed))})

        return out, None
    except SimHang:
        oracle = getattr(mod, 'HANG_ORACLE', None)

        if oracle:
            from dsim.pipe import Outcome
            out = Outcome()
            out.violate(oracle, 'cpu-cap', None)
            out.case_key = scn_digest(scn.get('actors'))
            return out, None

        # not a verdict and, in small numbers, not a failure of the check
        # either: the scenario was too expensive for its allowance and is
        # reported as discarded (run_check turns more than a handful of
        # these into a harness error)
        from dsim.pipe import Outcome
        out = Outcome()
        out.discarded = 'cpu-allowance-exceeded'
        return out, None
    except HarnessError as e:
        return None, 'HarnessError: %s' % e
    except Exception:
        return None, traceback.format_exc()
    finally:
        signal.setitimer(signal.ITIMER_VIRTUAL, 0)

        if _GUARD is not None:
            _GUARD.check_and_restore()


def new_agg():
    return {'evals': 0, 'scenarios': 0, 'keys': {}, 'states': set(), 'probes': {},
            'faults': {}, 'steps': 0, 'events': 0, 'violations': [],
            'samples': [], 'discarded': {}, 'known_hits': {},
            'harness': [], 'classes': {}, 'exhaustive': [], 'sigs': {},
            'schedules': set()}


def merge_counts(dst, src):
    for k, v in src.items():
        dst[k] = dst.get(k, 0) + v


def absorb(agg, scn, out, findings, keep_samples=2):
    agg['evals'] += max(0, int(out.evals))
    agg['scenarios'] += 1
    cls = scn.get('class', '?')
    agg['classes'][cls] = agg['classes'].get(cls, 0) + 1

    if out.discarded:
        agg['discarded'][out.discarded] = \
            agg['discarded'].get(out.discarded, 0) + 1

    if scn.get('schedule') and len(scn.get('actors', ())) > 1:
        agg['schedules'].add(int(scn_digest(scn['schedule'])[:12], 16))

    if out.nontrivial and out.case_key is not None:
        k = int(out.case_key[:14], 16)
        agg['keys'][k] = max(agg['keys'].get(k, 0), int(out.case_weight))

    agg['states'] |= out.states
    merge_counts(agg['probes'], out.probes)
    merge_counts(agg['faults'], out.faults)
    agg['steps'] += out.steps
    agg['events'] += out.events

    if len(agg['samples']) < keep_samples and out.nontrivial and \
       not out.violations:
        agg['samples'].append(scn)

    for v in out.violations:
        f = matches_finding(v, findings)

        if f is not None:
            agg['known_hits'][f['id']] = agg['known_hits'].get(f['id'], 0) + 1
        else:
            sk = '%s / %s' % signature(v)
            agg['sigs'][sk] = agg['sigs'].get(sk, 0) + 1

            if len(agg['violations']) < 20 and agg['sigs'][sk] <= 2:
                agg['violations'].append((scn, v))


def merge_agg(dst, src):
    dst['evals'] += src['evals']
    dst['scenarios'] += src['scenarios']

    for k, v in src['keys'].items():
        dst['keys'][k] = max(dst['keys'].get(k, 0), v)

    dst['states'] |= src['states']

    for k in ('probes', 'faults', 'discarded', 'known_hits', 'classes',
              'sigs'):
        merge_counts(dst[k], src[k])

    dst['steps'] += src['steps']
    dst['events'] += src['events']
    dst['schedules'] |= src.get('schedules', set())
    dst['violations'].extend(src['violations'])
    dst['harness'].extend(src['harness'])
    dst['exhaustive'].extend(src.get('exhaustive', ()))

    for s in src['samples']:
        if len(dst['samples']) < 3:
            dst['samples'].append(s)


def worker_chunk(args):
    pid, tier, master, start, count, task = args
    faulthandler.dump_traceback_later(600, exit=True)
    signal.signal(signal.SIGVTALRM, _alarm)
    L = lib.load()
    mod = prop_module(pid)
    findings = open_findings(pid)
    agg = new_agg()

    if task is not None:
        # an exhaustive / sweep task defined by the property module
        try:
            from dsim import gen
            gen.reset_state()

            for scn in mod.sweep_scenarios(task):
                # (the watchdog guards one scenario, not the whole task: a
                # full grid over a large file legitimately takes longer)
                faulthandler.dump_traceback_later(600, exit=True)
                scn.update({'property': pid, 'tier': tier,
                            'master_seed': master, 'class': task['name']})
                out, err = execute_guarded(mod, scn, L)

                if err is not None:
                    agg['harness'].append((task, err))
                    break

                absorb(agg, scn, out, findings)

            if task.get('exhaustive'):
                agg['exhaustive'].append(task['label'])
        except Exception:
            agg['harness'].append((task, traceback.format_exc()))

        faulthandler.cancel_dump_traceback_later()
        return agg

    for idx in range(start, start + count):
        faulthandler.dump_traceback_later(600, exit=True)

        try:
            scn = make_scenario(mod, tier, master, idx)
        except Exception:
            agg['harness'].append((idx, traceback.format_exc()))
            continue

        out, err = execute_guarded(mod, scn, L)

        if err is not None:
            agg['harness'].append((idx, err))
            continue

        absorb(agg, scn, out, findings)

    faulthandler.cancel_dump_traceback_later()
    return agg


# --------------------------------------------------------------------------
# replay
# --------------------------------------------------------------------------

def run_scenario(scn, L=None):
    L = L or lib.load()
    mod = prop_module(scn['property'])
    signal.signal(signal.SIGVTALRM, _alarm)
    out, err = execute_guarded(mod, scn, L)

    if err is not None:
        raise HarnessError(err)

    return out


def replay_file(path):
    with open(path) as fp:
        rf = json.load(fp)

    out = run_scenario(rf['scenario'])
    sig = (rf['signature']['oracle'], rf['signature']['detail'])
    hit = [v for v in out.violations if signature(v) == sig]
    print('replay %s: property=%s signature=%s/%s' % (
        path, rf['property'], sig[0], sig[1]))
    print('  violations now: %s' % (sorted(set(signature(v)
                                              for v in out.violations)),))
    print('  event-log digest: %s (recorded %s) %s' % (
        out.digest, rf.get('digest'),
        'MATCH' if out.digest == rf.get('digest') else 'DIFFERENT'))

    if hit:
        print(json.dumps(hit[0], indent=1, sort_keys=True)[:3000])
        print('VIOLATION property=%s replay=%s' % (rf['property'], path))
        return 1

    print('not reproduced')
    return 0


# --------------------------------------------------------------------------
# check
# --------------------------------------------------------------------------

def write_replay(pid, scn, v, digest, extra=None):
    d = os.environ.get('VERIF_REPLAY_DIR') or os.path.join(VERIF, 'replays')
    os.makedirs(d, exist_ok=True)
    name = '%s-%s-%s.json' % (pid, scn.get('seed', scn.get('run', 'x')),
                              scn_digest([v['oracle'], v['detail']])[:6])
    p = os.path.join(d, name)
    rf = {'property': pid, 'signature': {'oracle': v['oracle'],
                                         'detail': v['detail']},
          'violation': v, 'scenario': scn, 'digest': digest,
          'hashseed': int(os.environ.get('PYTHONHASHSEED', '0') or 0),
          'pyflags': os.environ.get('VERIF_PYFLAGS', ''),
          'tree_sha256': lib.tree_sha256()}

    if extra:
        rf.update(extra)

    with open(p, 'w') as fp:
        json.dump(rf, fp, indent=1, sort_keys=True)
        fp.write('\n')

    return p


def shrink_violation(mod, scn, v, L, max_seconds=30.0):
    sig = signature(v)

    def fails(c):
        out, err = execute_guarded(mod, c, L)

        if err is not None:
            return False

        return any(signature(x) == sig for x in out.violations)

    small, used = shrink.shrink(scn, fails, max_execs=3000,
                                max_seconds=max_seconds)
    out, err = execute_guarded(mod, small, L)

    if err is not None or not any(signature(x) == sig
                                  for x in out.violations):
        small = scn
        out, err = execute_guarded(mod, small, L)

    if err is not None:
        # the violating scenario cannot be re-executed here (e.g. it hits
        # the CPU cap in this process): it is reported as found, unshrunk
        print('note: re-execution of a violating scenario failed: %s' %
              err.strip().splitlines()[-1])
        return scn, v, None, used

    vv = [x for x in out.violations if signature(x) == sig]
    return small, (vv[0] if vv else v), out.digest, used


def run_check(pid, tier):
    t0 = time.time()
    mod = prop_module(pid)
    L = lib.load()
    signal.signal(signal.SIGVTALRM, _alarm)
    master = int(os.environ.get('VERIF_SEED', '1'))
    cfg = dict(DEFAULTS[tier])
    cfg.update(getattr(mod, 'TIERS', {}).get(tier, {}))

    if os.environ.get('VERIF_BUDGET_S'):
        cfg['budget_s'] = float(os.environ['VERIF_BUDGET_S'])

    if os.environ.get('VERIF_RUNS'):
        cfg['runs'] = int(os.environ['VERIF_RUNS'])

    print('check %s tier=%s VERIF_SEED=%d repo=%s tree=%s' % (
        pid, tier, master, lib.repo_root(), lib.tree_sha256()[:12]))
    sys.stdout.flush()

    # 1. known findings: replay each open entry
    findings = open_findings(pid)
    known_lines = []
    stale = []

    for f in (findings if not LANE else ()):
        rp = os.path.join(VERIF, f['replay'])

        with open(rp) as fp:
            rf = json.load(fp)

        out = run_scenario(rf['scenario'], L)

        if any(signature(v) == (f['oracle'], f['detail'])
               for v in out.violations):
            line = 'KNOWN-FINDING: property=%s %s' % (pid, f['what'])
            print(line)
            known_lines.append(line)
        else:
            stale.append(f['id'])
            print('note: known finding %s no longer reproduces' % f['id'])

    # 1b. regression scenarios of repaired defects (suppress nothing: a
    # defect that returns is reported like any other violation)
    agg = new_agg()

    for f in load_findings().get('fixed', ()):
        if not f.get('replay') or LANE:
            continue

        with open(os.path.join(VERIF, f['replay'])) as fp:
            rf = json.load(fp)

        if rf['scenario'].get('property') != pid:
            continue

        scn = dict(rf['scenario'])
        scn['class'] = 'regress'
        out, err = execute_guarded(mod, scn, L)

        if err is not None:
            agg['harness'].append((f['replay'], err))
        else:
            absorb(agg, scn, out, findings)

    # 2. seeded search
    ctx = multiprocessing.get_context('fork')
    deadline = t0 + cfg['budget_s']
    tasks = []

    if hasattr(mod, 'sweep_tasks') and not LANE:
        tasks = list(mod.sweep_tasks(tier, master))

    # index space of this lane (lanes never repeat each other's scenarios)
    next_idx = int(LANE or 0) * 10 ** 8
    cfg['runs'] += next_idx
    pending = set()
    harness_fail = None
    lanes = []
    nworkers = NWORKERS

    if not LANE and not SURVEY and NWORKERS >= 8 and \
       not os.environ.get('VERIF_NO_LANES'):
        import subprocess
        import tempfile

        for nw, n, pyflags in LANES[tier]:
            hs = derive_seed(master, 'hashseed', tier, n) % (2 ** 32 - 1) + 1
            fd, outp = tempfile.mkstemp(prefix='verif_lane_', suffix='.pkl')
            os.close(fd)
            env = dict(os.environ, PYTHONHASHSEED=str(hs), VERIF_LANE=str(n),
                       VERIF_PYFLAGS=' '.join(pyflags),
                       VERIF_LANE_OUT=outp, VERIF_WORKERS=str(nw),
                       VERIF_BUDGET_S=str(max(1.0, deadline - time.time())))
            pr = subprocess.Popen(
                [sys.executable] + pyflags +
                [os.path.join(VERIF, 'check.py'),
                 '--property', pid, '--tier', tier],
                env=env, stdout=subprocess.PIPE, stderr=subprocess.STDOUT)
            lanes.append((hs, outp, pr, pyflags))
            nworkers -= nw

    with cf.ProcessPoolExecutor(max_workers=nworkers, mp_context=ctx) as ex:
        def submit_more():
            nonlocal next_idx

            while len(pending) < nworkers * 2:
                if tasks:
                    t = tasks.pop(0)
                    pending.add(ex.submit(
                        worker_chunk, (pid, tier, master, 0, 0, t)))
                elif next_idx < cfg['runs'] and time.time() < deadline \
                        and (SURVEY or not agg['violations']):
                    n = min(cfg['chunk'], cfg['runs'] - next_idx)
                    pending.add(ex.submit(
                        worker_chunk, (pid, tier, master, next_idx, n, None)))
                    next_idx += n
                else:
                    break

        submit_more()

        while pending:
            try:
                done, _ = cf.wait(pending, timeout=900,
                                  return_when=cf.FIRST_COMPLETED)
            except Exception:
                harness_fail = traceback.format_exc()
                break

            if not done:
                harness_fail = 'worker timeout (900 s without a result)'
                break

            for fu in done:
                pending.discard(fu)

                try:
                    merge_agg(agg, fu.result())
                except Exception:
                    harness_fail = traceback.format_exc()

            if harness_fail:
                break

            submit_more()

        if harness_fail:
            for fu in pending:
                fu.cancel()

    search_s = time.time() - t0
    ncpu = agg['discarded'].get('cpu-allowance-exceeded', 0)

    if ncpu > max(3, agg['scenarios'] // 1000) and not harness_fail:
        harness_fail = ('%d scenarios exceeded the %d s CPU allowance '
                        '(more than a handful: the generator or the code '
                        'under test is too slow)' % (ncpu, RUN_CPU_CAP_S))

    if SURVEY:
        print('SURVEY (no shrinking, no replay files): %d scenarios' %
              agg['scenarios'])

        for sk, n in sorted(agg['sigs'].items(), key=lambda kv: -kv[1]):
            print('  %6d  %s' % (n, sk))

        return 1 if agg['sigs'] else 0

    # 3. violations: dedupe by signature, shrink, write replay files
    reported = []
    seen = set()

    for scn, v in agg['violations']:
        sig = signature(v)

        if sig in seen:
            continue

        seen.add(sig)

        if len(reported) >= 3:
            continue

        if hasattr(mod, 'focus'):
            scn = mod.focus(scn, v)

        small, vv, digest, used = shrink_violation(mod, scn, v, L)
        path = write_replay(pid, small, vv, digest,
                            {'original_run': scn.get('run'),
                             'original_seed': scn.get('seed'),
                             'shrink_execs': used})
        reported.append((path, vv))

    if LANE:
        # a hash-seed lane: hand everything to the parent, no verdict here
        import pickle

        with open(os.environ['VERIF_LANE_OUT'], 'wb') as fp:
            pickle.dump({'agg': agg, 'reported': reported,
                         'nsigs': len(seen), 'harness_fail': harness_fail},
                        fp)

        return 0

    hash_seeds = [0]

    for hs, outp, pr, pyflags in lanes:
        import pickle

        try:
            lout, _ = pr.communicate(timeout=cfg['budget_s'] + 900)
        except Exception:
            pr.kill()
            harness_fail = harness_fail or \
                'hash-seed lane %d did not finish' % hs
            continue

        try:
            with open(outp, 'rb') as fp:
                res = pickle.load(fp)

            os.unlink(outp)
        except Exception:
            harness_fail = harness_fail or (
                'hash-seed lane %d left no result:\n%s' % (
                    hs, lout.decode('utf-8', 'replace')[-2000:]))
            continue

        hash_seeds.append(hs)
        agg.setdefault('pyflags', []).append(' '.join(pyflags))
        res['agg']['violations'] = []
        merge_agg(agg, res['agg'])
        harness_fail = harness_fail or res['harness_fail']

        for path, vv in res['reported']:
            if signature(vv) not in seen:
                seen.add(signature(vv))
                reported.append((path, vv))

    agg['hash_seeds'] = hash_seeds
    wall = time.time() - t0
    ev = build_evidence(mod, pid, tier, master, agg, wall, search_s,
                        len(seen), known_lines, stale)
    evdir = os.environ.get('VERIF_EVIDENCE_DIR') or \
        os.path.join(VERIF, 'evidence')
    os.makedirs(evdir, exist_ok=True)

    with open(os.path.join(evdir, '%s.json' % pid), 'w') as fp:
        json.dump(ev, fp, indent=1, sort_keys=True)
        fp.write('\n')

    print('%s %s: %d runs (%d distinct non-trivial) in %.1fs, %d states, '
          'faults fired %s, known hits %s, discarded %s' % (
              pid, tier, agg['evals'], sum(agg['keys'].values()), wall,
              len(agg['states']),
              dict(sorted(agg['faults'].items())),
              dict(sorted(agg['known_hits'].items())),
              dict(sorted(agg['discarded'].items()))))

    if reported:
        # violations are replayable facts about the tree under test; they
        # are reported even if some other scenario made the harness stumble
        # (which is then mentioned, not hidden)
        for path, vv in reported:
            print('violation: %s / %s' % (vv['oracle'], vv['detail']))
            print(json.dumps(vv.get('info'), sort_keys=True)[:1500])
            print('VIOLATION property=%s replay=%s' % (pid, path))

        if harness_fail or agg['harness']:
            print('note: %d scenario(s) also ended in a harness error' % (
                len(agg['harness']) + (1 if harness_fail else 0)))

        return 1

    if harness_fail or agg['harness']:
        print('HARNESS-ERROR property=%s' % pid)

        if harness_fail:
            print(harness_fail)

        for where, err in agg['harness'][:3]:
            print('  at run/task %r:\n%s' % (where, err))

        return 2

    if agg['scenarios'] == 0:
        print('HARNESS-ERROR property=%s: nothing was explored' % pid)
        return 2

    print('OK property=%s' % pid)
    return 0


def build_evidence(mod, pid, tier, master, agg, wall, search_s, nviol,
                   known_lines, stale):
    probes = dict(sorted(agg['probes'].items()))
    per_hour = int(agg['scenarios'] / max(search_s, 1e-6) * 3600)
    cov = {
        'evaluations': agg['evals'],
        'distinct_nontrivial': sum(agg['keys'].values()),
        'scenarios': agg['scenarios'],
        'rule': mod.RULE,
        'samples': agg['samples'][:2] if agg['samples'] else
        [{'note': 'no non-trivial clean sample kept'}],
        'exhaustive': False,
        'exhaustive_subspaces': sorted(set(agg['exhaustive'])),
        'runs_per_hour': per_hour,
        'evaluations_per_hour': int(agg['evals'] / max(search_s, 1e-6) * 3600),
        'seed_range': 'sha256("%d:%s:%s:i") for i in [0, %d)' % (
            master, pid, tier, agg['classes'] and
            sum(v for k, v in agg['classes'].items()
                if not k.startswith('sweep:')) or 0),
        'run_classes': dict(sorted(agg['classes'].items())),
        'simulated_time': {
            'scheduler_steps': agg['steps'],
            'stream_events': agg['events'],
            'note': 'the code has no clock; simulated time is counted in '
                    'scheduler steps and stream events',
        },
        'faults_fired': dict(sorted(agg['faults'].items())),
        'probes': probes,
        'distinct_states': len(agg['states']),
        'distinct_interleavings': len(agg['schedules']),
        'interleaving_measure': 'distinct explicit schedules (sequence of '
                                'actor ids, one per step) among runs with '
                                '>= 2 actors',
        'state_measure': getattr(mod, 'STATE_MEASURE', ''),
        'discarded_runs': dict(sorted(agg['discarded'].items())),
        'known_hits': dict(sorted(agg['known_hits'].items())),
        'known_findings_reported': known_lines,
        'known_findings_stale': stale,
        'components': {
            'real': ['pydiffx.reader', 'pydiffx.writer', 'pydiffx.dom.*',
                     'pydiffx.utils.text', 'pydiffx.utils.unified_diffs '
                     '(through generate_stats)', 'pydiffx.sections',
                     'pydiffx.errors', 'pydiffx.options'],
            'stub': ['storage and both stream handles (SimWriteHandle / '
                     'SimReadHandle / SimRawIO)', 'foreign / newer / '
                     'byzantine producers (reference serializer)',
                     'reference parser, hierarchy, encoding-scope, tree and '
                     'diff-geometry models (oracles)'],
            'not_exercised': ['pydiffx.integrations.pygments_lexer',
                              'pydiffx._version'],
        },
        'tree_sha256': lib.tree_sha256(),
        'workers': NWORKERS,
        'hash_seeds': {
            'values': agg.get('hash_seeds', [0]),
            'interpreter_flags_of_the_child_lanes': agg.get('pyflags', []),
            'note': 'PYTHONHASHSEED of the processes the scenarios ran in: '
                    'the main process (sweeps, regressions, most of the '
                    'random search) under 0, a share of the random search '
                    'in child processes under seeds derived from '
                    'VERIF_SEED; a replay file records the one it needs',
        },
    }
    return {
        'property_id': pid,
        'tier': tier,
        'seed': master,
        'level': mod.LEVEL,
        'coverage': cov,
        'assumptions': list(getattr(mod, 'ASSUMPTIONS', [])),
        'wall_s': round(wall, 2),
        'violations': nviol,
    }
