"""Process-global state of the library (module-level tables, class-level
defaults and caches that every user in the process shares): observed after
every run and restored, so that one run can never influence the next
(execute stays a pure function of the scenario) and a run that mutates them
is reported where it happened.

The guard walks every loaded pydiffx module (tests excluded): module globals
and class attributes whose value is a dict / list / set / bytearray.  New
such attributes that appear later (a lazily created cache) are picked up on
the next check and treated as "was empty"."""

import copy
import sys
import types

MUTABLE = (dict, list, set, bytearray)
TABLES = ('VALID_SECTION_STATES', 'CONTENT_SECTIONS', 'META_SECTIONS',
          'PREAMBLE_SECTIONS')


def _walk():
    """Yields (name, container object) for the live shared containers."""
    for mname in sorted(sys.modules):
        if not (mname == 'pydiffx' or mname.startswith('pydiffx.')) or \
           '.tests' in mname:
            continue

        mod = sys.modules.get(mname)

        if mod is None:
            continue

        for attr in sorted(vars(mod)):
            if attr.startswith('__'):
                continue

            v = vars(mod)[attr]

            if isinstance(v, MUTABLE):
                yield '%s.%s' % (mname, attr), v
            elif isinstance(v, type) and getattr(v, '__module__', None) == \
                    mname:
                for cattr in sorted(vars(v)):
                    if cattr.startswith('__'):
                        continue

                    cv = vars(v)[cattr]

                    if isinstance(cv, MUTABLE):
                        yield '%s.%s.%s' % (mname, v.__name__, cattr), cv


def _safe_copy(v):
    try:
        return copy.deepcopy(v)
    except Exception:
        return None


def _restore(live, saved):
    fresh = copy.deepcopy(saved)

    if isinstance(live, (dict, set)):
        live.clear()
        live.update(fresh)
    elif isinstance(live, (list, bytearray)):
        live[:] = fresh


class Guard(object):
    def __init__(self, L):
        self.saved = {}
        self.ids = {}

        for name, v in _walk():
            c = _safe_copy(v)

            if c is not None:
                self.saved[name] = c
                self.ids[name] = id(v)

    def check_and_restore(self):
        """Short names of the containers a run changed (restored in place)."""
        changed = []

        for name, live in _walk():
            if name not in self.saved:
                # appeared after start-up (lazily created): its start-up
                # value is "empty"
                self.saved[name] = type(live)()

            saved = self.saved[name]

            try:
                same = live == saved
            except Exception:
                same = True

            if not same:
                changed.append(name.rsplit('.', 1)[-1] if
                               name.rsplit('.', 1)[-1] in TABLES else name)

                try:
                    _restore(live, saved)
                except Exception:
                    pass

        return changed
