"""Process-global state of the library (tables and class-level defaults that
every user in the process shares): observed after every run and restored, so
that one run can never influence the next (execute stays a pure function of
the scenario) and a run that mutates them is reported where it happened."""

import copy


def _targets(L):
    t = []
    o = L.dom_objects

    for cname in ('DiffX', 'DiffXChangeSection', 'DiffXFileSection',
                  'DiffXPreambleSection', 'DiffXMetaSection',
                  'DiffXFileDiffSection'):
        cls = getattr(o, cname, None)

        for attr in ('default_options', 'default_value'):
            if cls is not None and isinstance(getattr(cls, attr, None),
                                              (dict, list, set)):
                t.append(('%s.%s' % (cname, attr), getattr(cls, attr)))

    for obj, attr in ((L.dom_writer.DiffXDOMWriter, '_remapped_options'),
                      (L.sections, 'VALID_SECTION_STATES'),
                      (L.sections, 'CONTENT_SECTIONS'),
                      (L.sections, 'META_SECTIONS'),
                      (L.sections, 'PREAMBLE_SECTIONS'),
                      (L.text, 'NEWLINE_FORMATS'), (L.text, 'BOMS')):
        v = getattr(obj, attr, None)

        if isinstance(v, (dict, list, set)):
            t.append((attr, v))

    for cname in ('DiffType', 'LineEndings', 'MetaFormat', 'PreambleMimeType',
                  'SpecVersion'):
        cls = getattr(L.options, cname, None)
        v = getattr(cls, 'VALID_VALUES', None)

        if isinstance(v, (dict, list, set)):
            t.append(('%s.VALID_VALUES' % cname, v))

    return t


class Guard(object):
    def __init__(self, L):
        self.targets = _targets(L)
        self.saved = [(n, copy.deepcopy(v)) for n, v in self.targets]

    def check_and_restore(self):
        """Names of the objects a run changed (restored in place)."""
        changed = []

        for (name, live), (_, saved) in zip(self.targets, self.saved):
            if live != saved:
                changed.append(name)
                fresh = copy.deepcopy(saved)

                if isinstance(live, dict):
                    live.clear()
                    live.update(fresh)
                elif isinstance(live, set):
                    live.clear()
                    live.update(fresh)
                elif isinstance(live, list):
                    live[:] = fresh

        return changed
