"""Loads the code under test from the *current working tree* of the repo.

There is no build step: pydiffx is pure Python and is imported straight from
``$VERIF_REPO/python`` (default /repo/python).  ``VERIF_REPO`` exists only so
the mutant self-test can point the checks at a scratch copy.
"""

import hashlib
import logging
import os
import sys


class Lib(object):
    """Namespace with the pydiffx objects the harness touches."""


_LIB = None


def repo_root():
    return os.environ.get('VERIF_REPO', '/repo')


def load():
    global _LIB

    if _LIB is not None:
        return _LIB

    root = os.path.join(repo_root(), 'python')

    if not os.path.isdir(os.path.join(root, 'pydiffx')):
        raise RuntimeError('no pydiffx package under %s' % root)

    sys.dont_write_bytecode = True
    sys.path.insert(0, root)

    import pydiffx
    import pydiffx.errors as errors
    import pydiffx.reader as reader
    import pydiffx.writer as writer
    import pydiffx.sections as sections
    import pydiffx.options as options
    import pydiffx.utils.text as text
    import pydiffx.dom.objects as dom_objects
    import pydiffx.dom.reader as dom_reader
    import pydiffx.dom.writer as dom_writer

    got = os.path.realpath(os.path.dirname(pydiffx.__file__))
    want = os.path.realpath(os.path.join(root, 'pydiffx'))

    if got != want:
        raise RuntimeError('pydiffx imported from %s, expected %s'
                           % (got, want))

    # generate_stats() logs repr()s of objects; that text is not an
    # observable of any property and must never reach stderr/stdout.
    lg = logging.getLogger('pydiffx')
    lg.addHandler(logging.NullHandler())
    lg.propagate = False

    L = Lib()
    L.pydiffx = pydiffx
    L.errors = errors
    L.reader = reader
    L.writer = writer
    L.sections = sections
    L.options = options
    L.text = text
    L.dom_objects = dom_objects
    L.dom_reader = dom_reader
    L.dom_writer = dom_writer
    L.DiffXReader = reader.DiffXReader
    L.DiffXWriter = writer.DiffXWriter
    L.DiffX = dom_objects.DiffX
    L.DiffXDOMReader = dom_reader.DiffXDOMReader
    L.DiffXDOMWriter = dom_writer.DiffXDOMWriter
    L.BaseDiffXError = errors.BaseDiffXError
    L.DiffXParseError = errors.DiffXParseError
    L.root = root
    _LIB = L
    return L


def tree_sha256():
    """sha256 over python/pydiffx/**/*.py of the tree under test."""
    root = os.path.join(repo_root(), 'python', 'pydiffx')
    h = hashlib.sha256()

    for dirpath, dirnames, filenames in sorted(os.walk(root)):
        dirnames.sort()

        if 'tests' in dirnames:
            dirnames.remove('tests')

        for fn in sorted(filenames):
            if fn.endswith('.py'):
                p = os.path.join(dirpath, fn)
                h.update(os.path.relpath(p, root).encode('utf-8'))
                h.update(b'\0')

                with open(p, 'rb') as fp:
                    h.update(fp.read())

                h.update(b'\0')

    return h.hexdigest()
