"""Own PRNG (splitmix64): one integer decides everything.

No dependence on the algorithms of ``random`` (which may change between
Python versions) and no hidden global state.  Every choice made while
*generating* a scenario is drawn from one Rng seeded from
sha256("{master}:{property}:{tier}:{class}:{index}").  Executing a scenario
never draws from any PRNG.
"""

import hashlib

MASK = (1 << 64) - 1


def derive_seed(*parts):
    h = hashlib.sha256(':'.join(str(p) for p in parts).encode('utf-8'))
    return int.from_bytes(h.digest()[:8], 'big')


class Rng(object):
    __slots__ = ('s',)

    def __init__(self, seed):
        self.s = seed & MASK

    def u64(self):
        self.s = (self.s + 0x9E3779B97F4A7C15) & MASK
        z = self.s
        z = ((z ^ (z >> 30)) * 0xBF58476D1CE4E5B9) & MASK
        z = ((z ^ (z >> 27)) * 0x94D049BB133111EB) & MASK
        return z ^ (z >> 31)

    def below(self, n):
        """Integer in [0, n)."""
        if n <= 0:
            raise ValueError('below(%r)' % (n,))
        return self.u64() % n

    def randint(self, a, b):
        """Integer in [a, b] (both inclusive)."""
        return a + self.below(b - a + 1)

    def chance(self, p):
        """True with probability p."""
        return (self.u64() >> 11) < int(p * (1 << 53))

    def choice(self, seq):
        return seq[self.below(len(seq))]

    def weighted(self, pairs):
        """pairs: sequence of (weight:int, value)."""
        total = 0
        for w, _ in pairs:
            total += w
        k = self.below(total)
        for w, v in pairs:
            if k < w:
                return v
            k -= w
        raise AssertionError('unreachable')

    def shuffle(self, lst):
        for i in range(len(lst) - 1, 0, -1):
            j = self.below(i + 1)
            lst[i], lst[j] = lst[j], lst[i]

    def sample(self, seq, k):
        lst = list(seq)
        self.shuffle(lst)
        return lst[:k]

    def fork(self, label):
        """Independent child generator (does not disturb this one's stream
        beyond one draw)."""
        return Rng(derive_seed(self.u64(), label))
