"""Generators and the independent attribute table for the DOM world."""

from dsim import gen
from dsim import refmodel as R

# Attribute table typed in from the documentation of pydiffx.dom.objects
# (not read from the code): name -> (python type name, choices or None).
LE = ('unix', 'dos')
PREAMBLE_ATTRS = {
    'preamble': ('str', None),
    'preamble_encoding': ('str', None),
    'preamble_indent': ('int', None),
    'preamble_line_endings': ('str', LE),
    'preamble_mimetype': ('str', ('text/plain', 'text/markdown')),
}
META_ATTRS = {
    'meta': ('dict', None),
    'meta_encoding': ('str', None),
    'meta_format': ('str', ('json',)),
}
DIFF_ATTRS = {
    'diff': ('bytes', None),
    'diff_encoding': ('str', None),
    'diff_line_endings': ('str', LE),
    'diff_type': ('str', ('text', 'binary')),
}
ATTRS = {
    'tree': dict({'encoding': ('str', None), 'version': ('str', ('1.0',))},
                 **dict(PREAMBLE_ATTRS, **META_ATTRS)),
    'change': dict({'encoding': ('str', None)},
                   **dict(PREAMBLE_ATTRS, **META_ATTRS)),
    'file': dict({'encoding': ('str', None)},
                 **dict(META_ATTRS, **DIFF_ATTRS)),
}
# what the constructors of the content-section classes take (from the docs)
SECTION_ATTRS = {
    'DiffXPreambleSection': ('content', 'encoding', 'indent', 'line_endings',
                             'mimetype'),
    'DiffXMetaSection': ('content', 'encoding', 'format'),
    'DiffXFileDiffSection': ('content', 'encoding', 'line_endings', 'type'),
}
# names that exist on the objects but are NOT options or content attributes
NON_ATTRS = ['bogus', 'files', 'changes', 'options', 'subsections', '_level',
             '_content',
             'section_id', 'meta_section', 'preamble_section',
             'diff_section', 'content', 'section_name', 'default_options',
             'add_file', 'length', 'my-option', 'Encoding']
TYPES = {'str': str, 'int': int, 'dict': dict, 'bytes': bytes}
COMMON_DIFFS = [
    b'--- a/x\n+++ b/x\n@@ -1,2 +1,3 @@\n ctx\n-old\n+new\n+more\n',
    b'@@ -1 +1 @@\n-a\n+b\n',
    b'--- a\r\n+++ b\r\n@@ -0,0 +1,2 @@\r\n+x\r\n+y\r\n',
]


def node_kind(path):
    return ('tree', 'change', 'file')[len(path)]


def valid_value(rng, kind, attr, enc_pool=None):
    t, choices = ATTRS[kind][attr]

    if choices:
        return rng.choice(choices)

    if attr.endswith('encoding'):
        return rng.choice(enc_pool or gen.ENCS)
    elif t == 'str':
        if rng.chance(0.04):
            # a few hundred characters of mixed widths (multi-byte
            # characters at every offset from either end)
            return ''.join(rng.choice(['\u00e9', '\u65e5', 'a', 'b ', '\n',
                                       '\U0001f600'])
                           for _ in range(rng.randint(200, 700))) + '\n'

        return gen.gen_text(rng, 'utf-8', 6)
    elif t == 'int':
        return rng.choice([0, 1, 2, 4, 8])
    elif t == 'dict':
        md = gen.gen_metadata(rng)
        k = rng.below(10)

        if k == 9:
            # statistics somebody else computed (stale or simply different)
            md['stats'] = {'changes': 9, 'files': 9, 'insertions': 1,
                           'deletions': 2, 'lines changed': 3}
        elif k < 3:
            # the shapes real metadata has: nested dicts, lists of dicts
            md['path'] = {'old': 'a/' + rng.choice(['x', 'y', 'z']),
                          'new': 'b/' + rng.choice(['x', 'y', 'z'])}
        elif k < 5:
            md['items'] = [{'b': 1, 'a': gen.gen_text(rng, 'utf-8', 2),
                            'c': [1, {'z': 0, 'y': 1}]},
                           {'k2': None, 'k1': True}]

        return md
    elif rng.chance(0.02):
        # exact sizes around 2**16 / 2**17 (final newline included)
        return {'$bytes': (b'x' * (rng.choice([2 ** 16, 2 ** 17]) +
                                   rng.choice([-2, -1, 0, 1])) + b'\n').hex()}
    elif rng.chance(0.3):
        # a few *recurring* real diffs: several files with identical content
        return {'$bytes': rng.choice(COMMON_DIFFS).hex()}
    else:
        return {'$bytes': gen.gen_diff_bytes(rng, None).hex()}


def invalid_value(rng, kind, attr):
    """A value of the wrong type, or outside the choices."""
    t, choices = ATTRS[kind][attr]

    if choices and rng.chance(0.6):
        # incl. values that are valid choices of *other* options
        pool = ['mac', 'DOS', 'yaml', '2.0', 'text/html', 'x', 'Unix',
                'BINARY', '', 'unix', 'dos', 'json', 'text', 'binary',
                'text/plain', 'text/markdown', '1.0',
                # look-alikes of valid choices
                '\uff11.\uff10', '1.00', '01.0', '1.0\n', ' 1.0',
                '\uff4a\uff53\uff4f\uff4e', 'un\u0131x', 'dos\u00a0',
                'text/plain\u2028', 'b\u0131nary', 'JSON', 'Text',
                'unix\n', 'dos\n', 'json\n', 'text\n', 'binary\n',
                'text/plain\n', 'unix\r\n',
                # legacy / neighbouring spellings someone might "also allow"
                'text/x-markdown', 'text/x-diff', 'text/x-patch',
                'application/json', 'application/octet-stream', 'crlf',
                'lf', 'native', 'windows', '1.1', '1.0.0', '0.9', 'json5',
                'bin', 'utf8',
                # values that upset the code building the error message
                '%s', '%d %(x)s', '{}', '{0}{x}', "it's \"x\"", 'a\nb',
                'x' * 5000, '\ud800', '\x00', '%']
        return rng.choice([v for v in pool if v not in choices])

    wrong = {
        'str': [5, {'$bytes': '6162'}, None, ['a'], {'a': 1}, 1.5,
                {'$bytes': 'ff25737b7d'}, {'$tuple': ['%s', 1]}],
        'int': ['4', None, 1.5, {'$bytes': '34'}, [4], 0.0, 1.0, 2.0, 4.0,
                8.0],
        'dict': [[1], 'x', None, 5, {'$bytes': '7b7d'}, {'$tuple': [1]}],
        'bytes': ['abc', None, 5, ['a'], {'a': 1}],
    }[t]
    return rng.choice(wrong)


def is_valid(kind, attr, value):
    """Judge a *Python* value against the table."""
    if attr not in ATTRS[kind]:
        return None

    t, choices = ATTRS[kind][attr]

    if not isinstance(value, TYPES[t]) or \
       (t == 'int' and isinstance(value, bool)):
        return False

    if choices and value not in choices:
        return False

    return True


BAD_ADD_ATTRS = [
    {'bogus': 1}, {'meta': {'k': 1}, 'no_such_option': 'x'},
    {'meta': [1, 2]}, {'preamble': {'$bytes': '70'}},
    {'meta': {'k': 1}, 'encoding': 5}, {'meta': {'a': 1}, 'diff': 'text'},
    {'meta': {'a': 1}, 'diff': {'$bytes': '780a'}, 'diff_type': 'nope'},
    {'meta': {'a': 1}, 'meta_format': 'yaml'},
    {'preamble': 'p', 'preamble_mimetype': 'text/html'},
    {'preamble': 'p', 'preamble_indent': '4'},
]


def gen_tree_ops(rng, tname, max_changes=3, max_files=3, p_set=0.5,
                 enc_pool=None, p_invalid=0.0, diffs=None, full=False,
                 p_bad_add=0.0, p_list_edit=0.0):
    """Ops building one tree through the public API.  `full`: give every
    file a metadata so the tree serialises.  p_bad_add: add_change /
    add_file calls with an unusable argument in between (rejected, caught,
    the caller carries on); p_list_edit: the changes / files lists edited in
    place at the end."""
    ops = []
    attrs = {}

    if rng.chance(0.5):
        attrs['encoding'] = rng.choice(enc_pool or gen.ENCS_COMMON)

    for a in ('preamble', 'meta'):
        if rng.chance(0.3):
            attrs[a] = valid_value(rng, 'tree', a)

    ops.append({'op': 'new_tree', 'tree': tname, 'attrs': attrs})

    def sets(path, kind, names, p):
        for a in names:
            if rng.chance(p):
                if p_invalid and rng.chance(p_invalid):
                    v = invalid_value(rng, kind, a)
                else:
                    v = valid_value(rng, kind, a, enc_pool)

                ops.append({'op': 'set', 'tree': tname, 'path': path,
                            'attr': a, 'value': v})

    sets([], 'tree', sorted(ATTRS['tree']), p_set * 0.5)
    nch = rng.randint(0 if not full else 1, max_changes)

    for ci in range(nch):
        cattrs = {}

        if rng.chance(0.3):
            cattrs['encoding'] = rng.choice(enc_pool or gen.ENCS)

        if rng.chance(0.4):
            cattrs['preamble'] = valid_value(rng, 'change', 'preamble')

        if rng.chance(0.3):
            cattrs['meta'] = valid_value(rng, 'change', 'meta')

        if p_bad_add and rng.chance(p_bad_add):
            ops.append({'op': 'add_change', 'tree': tname, 'rejected': True,
                        'attrs': dict(rng.choice(BAD_ADD_ATTRS))})

        ops.append({'op': 'add_change', 'tree': tname, 'attrs': cattrs})
        sets([ci], 'change', sorted(ATTRS['change']), p_set * 0.4)
        nf = rng.randint(0 if not full else 1, max_files)

        for fi in range(nf):
            fattrs = {}

            if full or rng.chance(0.8):
                fattrs['meta'] = valid_value(rng, 'file', 'meta')

            if rng.chance(0.6):
                if diffs is not None:
                    fattrs['diff'] = {'$bytes': diffs(rng).hex()}
                else:
                    fattrs['diff'] = valid_value(rng, 'file', 'diff')

            if rng.chance(0.2):
                fattrs['diff_type'] = rng.choice(['text', 'binary'])

            if p_bad_add and rng.chance(p_bad_add):
                ops.append({'op': 'add_file', 'tree': tname, 'change': ci,
                            'rejected': True,
                            'attrs': dict(rng.choice(BAD_ADD_ATTRS))})

            if diffs is None and 'diff' in fattrs and rng.chance(0.08):
                # a diff whose bytes are text in its declared encoding, DOS
                # or UNIX lines, line endings left to be detected
                de = rng.choice(['utf-16-be', 'utf-32-be', 'utf-16-le',
                                 'utf-16', 'cp037', 'utf-32'])
                nl = rng.choice(['\r\n', '\n'])
                fattrs['diff'] = {'$bytes': nl.join(
                    ['--- a', '+++ b', '@@ -1 +1 @@', '-old', '+new']
                    + ([''] if rng.chance(0.7) else [])).encode(de).hex()}
                fattrs['diff_encoding'] = de

            if diffs is None and 'diff' in fattrs and rng.chance(0.02):
                # a codec name nobody knows on a diff (with / without
                # declared line endings)
                fattrs['diff_encoding'] = rng.choice(['nope-8', 'x-user',
                                                      'utf-99'])

                if rng.chance(0.5):
                    fattrs.pop('diff_line_endings', None)

            ops.append({'op': 'add_file', 'tree': tname, 'change': ci,
                        'attrs': fattrs})
            sets([ci, fi], 'file', sorted(ATTRS['file']), p_set * 0.3)

    if p_list_edit and rng.chance(0.3) and nch:
        # a file section copied (deepcopy / pickle) into a change, then the
        # copy edited through its typed attributes
        ci = rng.below(nch)
        ops.append({'op': 'clone_file', 'tree': tname, 'from': tname,
                    'path': [rng.below(nch), 0], 'change': ci,
                    'how': rng.choice(['deepcopy', 'pickle'])})

        for a in rng.sample(sorted(ATTRS['file']), 3) + ['meta', 'diff']:
            ops.append({'op': 'set', 'tree': tname, 'path': [ci, -1],
                        'attr': a,
                        'value': valid_value(rng, 'file', a, enc_pool)})

    if p_list_edit and rng.chance(p_list_edit):
        for _ in range(rng.randint(1, 3)):
            ops.append({'op': 'list_edit', 'tree': tname,
                        'path': rng.choice([[], [0], [0], [1]]),
                        'how': rng.choice(['reverse', 'rotate', 'swap',
                                           'del_first', 'del_last'])})

    return ops


def tree_shape(ops, tname):
    """(number of changes, files per change) implied by add_* ops (assuming
    they all succeed)."""
    files = []

    for op in ops:
        if op.get('tree') != tname:
            continue

        if op['op'] == 'add_change':
            files.append(0)
        elif op['op'] == 'add_file' and 0 <= op.get('change', 0) < len(files):
            files[op['change']] += 1

    return files


# --------------------------------------------------------------------------
# snapshot -> writer calls (the canonical serialisation of a tree) and the
# documented normalisation of a write/parse cycle
# --------------------------------------------------------------------------

def _content_op(kind, snap):
    """Writer op implied by a content-section snapshot, or None if empty."""
    c = snap['content']

    if not c:
        return None

    o = dict(snap['options'])

    if kind == 'preamble':
        op = {'op': 'write_preamble', 'text': c}
        names = {'encoding': 'encoding', 'indent': 'indent',
                 'line_endings': 'line_endings', 'mimetype': 'mimetype'}
    elif kind == 'meta':
        op = {'op': 'write_meta', 'metadata': c}
        names = {'encoding': 'encoding', 'format': 'meta_format'}
    else:
        op = {'op': 'write_diff', 'content_hex': c.hex()}
        names = {'encoding': 'encoding', 'line_endings': 'line_endings',
                 'type': 'diff_type'}

    for k, v in o.items():
        if k not in names:
            return 'unknown-option:%s' % k

        op[names[k]] = v

    return op


def tree_to_calls(snap):
    """(main_encoding, version, ops) or a string naming why the tree has no
    canonical serialisation through the documented API."""
    mo = dict(snap['options'])
    enc = mo.pop('encoding', None)
    ver = mo.pop('version', '1.0')

    if mo:
        return 'unknown-main-option'

    ops = []

    def content(kind, s):
        op = _content_op(kind, s)

        if isinstance(op, str):
            return op

        if op is not None:
            ops.append(op)

        return None

    for kind in ('preamble', 'meta'):
        e = content(kind, snap[kind])

        if e:
            return e

    for ch in snap['changes']:
        co = dict(ch['options'])
        op = {'op': 'new_change'}

        if 'encoding' in co:
            op['encoding'] = co.pop('encoding')

        if co:
            return 'unknown-change-option'

        ops.append(op)

        for kind in ('preamble', 'meta'):
            e = content(kind, ch[kind])

            if e:
                return e

        for f in ch['files']:
            fo = dict(f['options'])
            op = {'op': 'new_file'}

            if 'encoding' in fo:
                op['encoding'] = fo.pop('encoding')

            if fo:
                return 'unknown-file-option'

            ops.append(op)

            for kind in ('meta', 'diff'):
                e = content(kind, f[kind])

                if e:
                    return e

    return enc, ver, ops


DEFAULT_CONTENT = {'preamble': None, 'meta': {}, 'diff': None}
DEFAULT_OPTIONS = {'preamble': {}, 'meta': {'format': 'json'}, 'diff': {}}


def normalise(snap, model_records):
    """Expected snapshot after to_bytes -> from_stream: exactly the
    documented normalisation (final newline appended to text/diff, detected
    line_endings recorded, indent=4 and format=json recorded, empty content
    sections reset to defaults), nothing else.  `model_records`: the
    RefWriter records for tree_to_calls(snap), in order."""
    it = iter(model_records[1:])

    def content(kind, s):
        if not s['content']:
            return {'id': s['id'], 'options': dict(DEFAULT_OPTIONS[kind]),
                    'content': DEFAULT_CONTENT[kind] if kind != 'meta'
                    else {}}

        rec = next(it)
        o = {k: v for k, v in rec['options'].items() if k != 'length'}

        if kind == 'preamble':
            c = rec['_plain'].decode(rec['_eff'])
        elif kind == 'meta':
            c = s['content']
        else:
            c = rec['_plain']

        return {'id': s['id'], 'options': o, 'content': c}

    out = {'id': snap['id'],
           'options': {k: v for k, v in snap['options'].items()
                       if v is not None},
           'preamble': content('preamble', snap['preamble']),
           'meta': content('meta', snap['meta']), 'changes': []}

    for ch in snap['changes']:
        next(it)
        c = {'id': ch['id'], 'options': dict(ch['options']),
             'preamble': content('preamble', ch['preamble']),
             'meta': content('meta', ch['meta']), 'files': []}

        for f in ch['files']:
            next(it)
            c['files'].append({'id': f['id'], 'options': dict(f['options']),
                               'meta': content('meta', f['meta']),
                               'diff': content('diff', f['diff'])})

        out['changes'].append(c)

    return out
