"""Scenario minimisation: ddmin over every list in the scenario (actors,
ops, faults, schedule, sections ...) plus leaf simplification (shorter
strings, smaller ints, dropped optional keys), kept only while the *same
violation signature* persists.  Oracles are total over arbitrary scenarios,
so a candidate never needs repair: one that no longer executes simply does
not count as failing."""

import copy
import time

PROTECTED_KEYS = ('op', 'id', 'kind', 'file', 'property', 'class', 'tier',
                  'master_seed', 'run', 'seed', 'sid')
STRING_CANDIDATES = ('', 'x', 'a\n', 'utf-8')


def _paths(node, path=()):
    """Yield (path, node) for every container in the JSON tree."""
    yield path, node

    if isinstance(node, dict):
        for k in sorted(node):
            for x in _paths(node[k], path + (k,)):
                yield x
    elif isinstance(node, list):
        for i, v in enumerate(node):
            for x in _paths(v, path + (i,)):
                yield x


def _get(root, path):
    for p in path:
        root = root[p]

    return root


def _set(root, path, value):
    root = copy.deepcopy(root)
    node = root

    for p in path[:-1]:
        node = node[p]

    node[path[-1]] = value
    return root


def _del(root, path):
    root = copy.deepcopy(root)
    node = root

    for p in path[:-1]:
        node = node[p]

    del node[path[-1]]
    return root


class Budget(object):
    def __init__(self, execs, seconds):
        self.execs = execs
        self.deadline = time.time() + seconds
        self.used = 0

    def ok(self):
        return self.used < self.execs and time.time() < self.deadline


def shrink(scn, fails, max_execs=3000, max_seconds=30.0):
    """fails(scenario) -> bool (same signature still violated).  Returns
    (minimal scenario, executions used)."""
    b = Budget(max_execs, max_seconds)

    def test(c):
        if not b.ok():
            return False

        b.used += 1

        try:
            return bool(fails(c))
        except Exception:
            return False

    cur = scn
    progress = True

    while progress and b.ok():
        progress = False

        # 1. lists: remove chunks (ddmin flavour), largest lists first
        lists = [(p, n) for p, n in _paths(cur) if isinstance(n, list) and n]
        lists.sort(key=lambda pn: (-len(pn[1]), str(pn[0])))

        for path, _ in lists:
            try:
                lst = _get(cur, path)
            except (KeyError, IndexError, TypeError):
                continue

            if not isinstance(lst, list):
                continue

            n = len(lst)
            chunk = n

            while chunk >= 1 and b.ok():
                i = 0
                removed = False

                while i < len(lst) and b.ok():
                    cand_list = lst[:i] + lst[i + chunk:]
                    cand = _set(cur, path, cand_list) if path else cand_list

                    if len(cand_list) < len(lst) and test(cand):
                        cur = cand
                        lst = cand_list
                        progress = True
                        removed = True
                    else:
                        i += chunk

                if chunk == 1:
                    break

                chunk = max(1, chunk // 2)

        # 2. dict keys: drop optional ones
        for path, node in list(_paths(cur)):
            if not isinstance(node, dict):
                continue

            for k in sorted(node):
                if k in PROTECTED_KEYS or not b.ok():
                    continue

                try:
                    _get(cur, path + (k,))
                except (KeyError, IndexError, TypeError):
                    continue

                cand = _del(cur, path + (k,))

                if test(cand):
                    cur = cand
                    progress = True

        # 3. leaves: simpler values
        for path, node in list(_paths(cur)):
            if not path or not b.ok():
                continue

            try:
                v = _get(cur, path)
            except (KeyError, IndexError, TypeError):
                continue

            if path[-1] in PROTECTED_KEYS:
                continue

            cands = []

            if isinstance(v, bool) or v is None:
                continue
            elif isinstance(v, int):
                for c in (0, 1, 4, 96, v // 2, v - 1):
                    if c != v and abs(c) <= abs(v) and c not in cands:
                        cands.append(c)
            elif isinstance(v, str):
                is_hex = isinstance(path[-1], str) and \
                    (path[-1].endswith('hex') or path[-1] == '$bytes')
                step = 2 if is_hex else 1

                if not is_hex:
                    for c in STRING_CANDIDATES:
                        if len(c) < len(v) or (c == 'utf-8' and v != c and
                                               len(v) <= 12):
                            cands.append(c)

                h = (len(v) // 2) // step * step

                if h and h < len(v):
                    cands.append(v[:h])
                    cands.append(v[h:])

                if len(v) <= 64 * step:
                    for i in range(0, len(v), step):
                        cands.append(v[:i] + v[i + step:])

                if not is_hex:
                    for i, ch in enumerate(v[:32]):
                        if ch not in 'a\n' and ord(ch) > 32:
                            cands.append(v[:i] + 'a' + v[i + 1:])
            else:
                continue

            for c in cands:
                if not b.ok():
                    break

                if c == v:
                    continue

                cand = _set(cur, path, c)

                if test(cand):
                    cur = cand
                    v = c
                    progress = True
                    break

    return cur, b.used
