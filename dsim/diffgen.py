"""Ground-truth unified-diff generator: builds hunks from a drawn geometry
and therefore knows the exact insert / delete counts."""

PAYLOADS = ['foo', '', ' indented', '- dash', '-- a/file', '++ b/file',
            '+plus', '@@ -1 +1 @@', '@@ not a header', '\\ not a marker',
            'tab\there', '#.change:', '#...diff: length=3', 'x' * 40,
            'é', '日本', 'form\x0cfeed', 'v\x0bt', 'fs\x1cgs\x1drs\x1e',
            'nel\x85x', 'ls\u2028ps\u2029', 'bare\rcr', '- sql comment',
            '+ plus space', '-- ', '++ ',
            # lines that with their -/+ prefix spell something else: a mail
            # signature separator ("-- "), a bare "--" / "++", a lone blank
            '- ', '-', '+', '+ ', ' ', '- ']
GARBAGE = ['diff --git a/x b/x', 'index 123..456 100644', '--- a/x', '+++ b/x',
           'Binary files differ', '', 'some text', '-removed outside hunk',
           '+added outside hunk', '@@ broken header', 'Index: x',
           '===================================================================']
MARKER = '\\ No newline at end of file'


def gen_hunk(rng, ascii_only=False, ok=None):
    """Returns (lines, inserts, deletes)."""
    nctx = rng.choice([0, 0, 1, 3])
    nminus = rng.choice([0, 1, 2, 5])
    nplus = rng.choice([0, 1, 2, 5])
    body = []
    kinds = [' '] * nctx + ['-'] * nminus + ['+'] * nplus
    rng.shuffle(kinds)
    pl = [p for p in PAYLOADS if (not ascii_only or p.isascii()) and
          (ok is None or ok(p))]

    for k in kinds:
        body.append(k + rng.choice(pl))

    c1 = nctx + nminus
    c2 = nctx + nplus
    s1 = rng.choice([0, 1, 7, 100]) if c1 else 0
    s2 = rng.choice([0, 1, 7, 100]) if c2 else 0

    def rng_part(s, c):
        if c == 1 and rng.chance(0.5):
            return '%d' % s

        return '%d,%d' % (s, c)

    head = '@@ -%s +%s @@' % (rng_part(s1, c1), rng_part(s2, c2))

    if rng.chance(0.3):
        head += ' ' + rng.choice(['def f():', 'class X', '@@', 'x',
                                  'a\rb', 'int f(void) {\r}'])

    # markers may only sit *inside* the hunk body (before its last line):
    # after the last body line the hunk is complete and a marker is just a
    # line between hunks
    if body and rng.chance(0.3):
        pos = rng.below(len(body))
        body.insert(pos, MARKER)

    lines = [head] + body

    if rng.chance(0.15):
        lines.append(MARKER)

    return lines, nplus, nminus


def gen_diff(rng, ascii_only=False, damaged=False, ok=None):
    """Returns (text lines without newlines, inserts, deletes, parsable)."""
    lines = []
    ins = dels = 0
    pl = [g for g in GARBAGE]

    for _ in range(rng.choice([0, 1, 2, 4])):
        lines.append(rng.choice(pl))

    nh = rng.randint(0 if rng.chance(0.1) else 1, 4)

    for _ in range(nh):
        h, i, d = gen_hunk(rng, ascii_only, ok)
        lines.extend(h)
        ins += i
        dels += d

        for _ in range(rng.choice([0, 0, 1, 2])):
            lines.append(rng.choice(pl))

    parsable = True

    if damaged and nh:
        # damage one hunk: cut it short, or put garbage inside it
        idx = [k for k, l in enumerate(lines)
               if l.startswith('@@ -') and ' @@' in l[3:]]
        k = rng.choice(idx)
        end = k + 1

        while end < len(lines) and lines[end][:1] in (' ', '+', '-', '\\') \
                and not lines[end].startswith(('--- ', '+++ ')):
            end += 1

        if end - k >= 2:
            if rng.chance(0.5):
                # garbage in the middle of the body
                lines.insert(k + 1 + rng.below(end - k - 1), 'garbage!')
            else:
                del lines[end - 1]      # cut short

            parsable = None             # depends on geometry; decided by
            # the reference counter below

    return lines, ins, dels, parsable


def reference_count(lines):
    """Independent re-count used for damaged diffs: returns (ins, dels) or
    None if some hunk is malformed (ends early, foreign line inside)."""
    import re
    hre = re.compile(r'@@ -(\d+)(?:,(\d+))? \+(\d+)(?:,(\d+))? @@(?: .*)?\Z')
    ins = dels = 0
    i = 0
    n = len(lines)

    while i < n:
        m = hre.match(lines[i]) if lines[i].startswith('@@') else None

        if not m:
            i += 1
            continue

        c1 = int(m.group(2)) if m.group(2) is not None else 1
        c2 = int(m.group(4)) if m.group(4) is not None else 1
        a = b = 0
        i += 1

        while (a < c1 or b < c2):
            if i >= n:
                return None

            l = lines[i]

            if l.startswith('@@'):
                return None
            elif l.startswith('-'):
                a += 1
                dels += 1
            elif l.startswith('+'):
                b += 1
                ins += 1
            elif l.startswith(' '):
                a += 1
                b += 1
            elif l.strip() == MARKER:
                pass
            else:
                return None

            i += 1

    return ins, dels
