"""Catalogue of stateless text codecs and the spellings of their names,
computed at start-up from the `encodings` package (not hard-coded).

A codec is kept if it is a text codec and passes a concatenation test on
samples from its own repertoire that include non-ASCII characters
(encode(a+b) == encode(a) + encode(b)[len(encode('')):], and decodes back):
that is what "supports statelessly" means operationally; it drops utf-7, hz,
iso2022-*, idna, punycode, the escape codecs and the bytes-to-bytes codecs.
"""

import codecs
import encodings.aliases
import pkgutil
import re

import encodings

VAL_RE = re.compile(r'[A-Za-z0-9/._-]+\Z')
SAMPLE_CHARS = 'aZ09 \n\r~\\|{}éÿЖ日本€†ñあ한'

_CAT = None


def _lookup(name):
    try:
        return codecs.lookup(name)
    except (LookupError, TypeError, ValueError):
        return None


def stateless_text(name):
    ci = _lookup(name)

    if ci is None or not getattr(ci, '_is_text_encoding', True):
        return False

    try:
        rep = [c for c in SAMPLE_CHARS if _rt(c, name)]

        if 'a' not in rep or '\n' not in rep or '\r' not in rep:
            return False

        nonascii = [c for c in rep if ord(c) > 127]
        empty = ''.encode(name)

        if empty not in (b'',) and not 'x'.encode(name).startswith(empty):
            return False

        pieces = ['a', '\n', 'Z\r\n'] + nonascii[:4] + \
            ['a' + c for c in nonascii[:2]]

        # text that merely *looks* like an escape must survive too (drops
        # unicode-escape / raw-unicode-escape, which are not injective)
        for lit in ('\\u0041', '\\x41', '\\n', '\\\\', '+AGE-', '~{'):
            if all(_rt(c, name) for c in lit) and not _rt(lit, name):
                return False

        for a in pieces:
            for b in pieces:
                ea = a.encode(name)
                eb = b.encode(name)
                bom = len(_bom(name))

                if (a + b).encode(name) != ea + eb[bom:]:
                    return False

                if (a + b).encode(name).decode(name) != a + b:
                    return False

        # newline-after-text must equal newline alone minus the BOM
        for nl in ('\n', '\r\n'):
            if ('x' + nl).encode(name)[len('x'.encode(name)):] != \
               nl.encode(name)[len(_bom(name)):]:
                return False

        return True
    except Exception:
        return False


def _rt(c, name):
    try:
        return c.encode(name).decode(name) == c
    except Exception:
        return False


def _bom(name):
    """Bytes the codec emits at the start of every encode() call."""
    a = 'a'.encode(name)
    aa = 'aa'.encode(name)
    unit = len(aa) - len(a)
    return a[:len(a) - unit]


def spellings_of(canon, names):
    out = set()

    for n in names:
        cands = {n, n.upper(), n.lower(), n.capitalize(),
                 n.replace('_', '-'), n.replace('-', '_'),
                 n.replace('_', ''), n.replace('-', ''),
                 n.replace('_', '-').upper(), n.replace('-', '_').upper(),
                 # the codec registry collapses every run of non-alphanumeric
                 # characters: doubled / leading / trailing separators and
                 # "." or "/" as separator name the same codec
                 n.replace('_', '-').replace('-', '--'),
                 n.replace('_', '-') + '-', '_' + n.replace('-', '_'),
                 n.replace('_', '-').replace('-', '/'),
                 n.replace('_', '-').replace('-', '.'),
                 n.replace('_', '-').replace('-', '_-')}

        for c in cands:
            if not c or not VAL_RE.match(c) or c.isdigit():
                continue

            if c.replace('_', '').replace('-', '').isdigit():
                continue

            ci = _lookup(c)

            if ci is not None and ci.name == canon:
                out.add(c)

    return sorted(out)


def catalogue():
    """{canonical codec name: sorted list of spellings}, BOM info."""
    global _CAT

    if _CAT is not None:
        return _CAT

    names = set()

    for m in pkgutil.iter_modules(encodings.__path__):
        names.add(m.name)

    for k, v in encodings.aliases.aliases.items():
        names.add(k)
        names.add(v)

    by_canon = {}

    for n in sorted(names):
        ci = _lookup(n)

        if ci is None:
            continue

        by_canon.setdefault(ci.name, set()).add(n)
        by_canon[ci.name].add(ci.name)

    cat = {}

    for canon in sorted(by_canon):
        if not stateless_text(canon):
            continue

        sp = spellings_of(canon, sorted(by_canon[canon]))

        if sp:
            cat[canon] = sp

    _CAT = {
        'codecs': cat,
        'bom_codecs': sorted(c for c in cat if _bom(c)),
        'nspellings': sum(len(v) for v in cat.values()),
    }
    return _CAT
