"""Helpers shared by the pipeline properties (producer -> storage ->
consumer): building worlds, the call-log oracle (C01), the byte oracle
(C02), record comparison against the reference parser (C03)."""

import copy
import hashlib
import json

from dsim import gen
from dsim import refmodel as R
from dsim.actors import build_world
from dsim.world import World, jsonable


def scn_digest(obj):
    return hashlib.sha256(
        json.dumps(obj, sort_keys=True, ensure_ascii=True,
                   separators=(',', ':')).encode('ascii')).hexdigest()[:16]


class Outcome(object):
    def __init__(self):
        self.violations = []
        self.probes = {}
        self.faults = {}
        self.states = set()
        self.nontrivial = False
        self.digest = None
        self.steps = 0
        self.events = 0
        self.case_key = None
        self.discarded = None       # reason, when the run proves nothing
        self.evals = 1              # executions of the code under test
        self.case_weight = 1        # distinct non-trivial cases in this run

    def absorb(self, world):
        self.violations.extend(world.violations)

        for k, v in world.probes.items():
            self.probes[k] = self.probes.get(k, 0) + v

        for k, v in world.faults.items():
            self.faults[k] = self.faults.get(k, 0) + v

        self.states |= world.states
        self.steps += world.steps
        self.events += len(world.log)
        d = world.digest()
        self.digest = d if self.digest is None else \
            hashlib.sha256((self.digest + d).encode()).hexdigest()

    def probe(self, k, n=1):
        self.probes[k] = self.probes.get(k, 0) + n

    def violate(self, oracle, detail, info=None):
        self.violations.append({'oracle': oracle, 'detail': detail,
                                'info': jsonable(info)
                                if info is not None else None})


def effective_writer_spec(spec):
    """Writer actor spec with the ops the reference model does not predict
    ACCEPT removed (C01/C02/C04/C15 quantify over accepted calls)."""
    s = dict(spec)
    main = spec.get('main_encoding', 'utf-8')

    if not isinstance(main, str) or not main or not R.codec_known(main) \
       or spec.get('version', '1.0') != '1.0':
        return None                 # outside the quantified domain

    kept, _ = gen.filter_ops(main, spec.get('ops', []))
    s['ops'] = kept
    return s


def make_world(scn, L, actors=None):
    s = dict(scn)

    if actors is not None:
        s['actors'] = actors

    w = World(s, L)
    build_world(w)
    return w


def model_from_calls(writer_actor):
    """RefWriter driven by exactly the calls the real writer accepted.
    Returns (model, accepted ops) or (None, reason)."""
    spec = writer_actor.spec
    m = R.RefWriter(encoding=spec.get('main_encoding', 'utf-8'),
                    version=spec.get('version', '1.0'))
    acc = []

    for c in writer_actor.calls:
        if c['i'] < 0:
            if c['outcome'] != 'ok':
                return None, 'ctor-' + c['outcome']

            continue

        if c['outcome'] != 'ok':
            continue

        op = writer_actor.ops[c['i']]

        try:
            p = m.predict(op)
        except Exception:
            p = None

        if p != R.ACCEPT:
            return None, 'writer-accepted-unpredicted'

        m.apply(op)
        acc.append(op)

    return m, acc


def opt_eq(a, b):
    return a == b and type(a) is type(b)


def cmp_options(got, want):
    """First differing option key, or None."""
    if not isinstance(got, dict):
        return '<not-a-dict>'

    for k in sorted(set(got) | set(want)):
        if k not in got:
            return '-' + k

        if k not in want:
            return '+' + k

        if not opt_eq(got[k], want[k]):
            return '!' + k

    return None


def content_key(t):
    return {'preamble': 'text', 'meta': 'metadata', 'diff': 'diff'}.get(t)


def json_eq(a, b):
    """Equality of JSON values, with bool/int and int/float kept apart
    where Python's == would blur them."""
    if type(a) is not type(b):
        if isinstance(a, (int, float)) and isinstance(b, (int, float)) and \
           not isinstance(a, bool) and not isinstance(b, bool):
            return a == b

        return False

    if isinstance(a, dict):
        return a.keys() == b.keys() and all(json_eq(a[k], b[k]) for k in a)
    elif isinstance(a, list):
        return len(a) == len(b) and all(json_eq(x, y) for x, y in zip(a, b))

    return a == b


def check_calllog_roundtrip(out, tag, model, acc_ops, records, end, exc_info,
                            prefix='C01'):
    """C01 oracle: one record per written section, in order, same id / level
    / type, the options given or derived, content equal to what was
    written."""
    want = model.records

    if end != 'eof':
        out.violate(prefix + '.read-ends', '%s:%s:%s' % (
            tag, end, (exc_info or {}).get('type')),
            {'exc': exc_info, 'yielded': len(records), 'written': len(want)})
        return False

    if len(records) != len(want):
        out.violate(prefix + '.count', tag,
                    {'yielded': len(records), 'written': len(want)})
        return False

    for i, (g, w) in enumerate(zip(records, want)):
        for k in ('section', 'level', 'type'):
            if g.get(k) != w[k]:
                out.violate(prefix + '.header', '%s:%s' % (tag, k),
                            {'index': i, 'got': g.get(k), 'want': w[k]})
                return False

        d = cmp_options(g.get('options'), w['options'])

        if d is not None:
            out.violate(prefix + '.options', '%s:%s:%s' % (tag, w['type'], d),
                        {'index': i, 'got': g.get('options'),
                         'want': w['options']})
            return False

        if '_plain' in w:
            op = acc_ops[i - 1]
            key, val = R.expected_record_content(w, op)
            gv = g.get(key)

            if key == 'metadata':
                ok = json_eq(gv, val)
            else:
                ok = type(gv) is type(val) and gv == val

            if not ok:
                out.violate(prefix + '.content', '%s:%s' % (tag, w['type']),
                            {'index': i, 'got': gv, 'want': val,
                             'eff': w['_eff'], 'kind': w['_kind']})
                return False

    return True


def raw_meta_variant(model_rec, op):
    """The other conformant rendering of a metadata section (non-ASCII not
    \\u-escaped), as (header, body) or None if identical / unencodable."""
    s = json.dumps(op['metadata'], indent=4, separators=(',', ': '),
                   sort_keys=True, ensure_ascii=False)
    eff = model_rec['_eff']

    try:
        body = s.encode(eff)
    except UnicodeError:
        return None

    nl = R.NL('unix', eff)

    if not body.endswith(nl):
        body += nl

    opts = dict(model_rec['options'])
    opts['length'] = len(body)
    return R.header(model_rec['section'], opts), body


def check_bytes_against_model(out, tag, data, model, acc_ops, prefix='C02'):
    """C02 byte oracle.  Byte-for-byte equality with the reference
    serializer; one deliberate tolerance: a metadata body may be either of
    the two conformant renderings (escaped / raw non-ASCII)."""
    pos = 0
    chunks = model.out
    ci = 0

    # chunk 0 = main header; then per record: header (+ body)
    for ri, rec in enumerate(model.records):
        hdr = chunks[ci]
        ci += 1
        body = None

        if '_plain' in rec:
            body = chunks[ci]
            ci += 1

        want = hdr + (body or b'')

        if data[pos:pos + len(want)] == want:
            pos += len(want)
            continue

        if rec['type'] == 'meta':
            alt = raw_meta_variant(rec, acc_ops[ri - 1])

            if alt is not None:
                w2 = alt[0] + alt[1]

                if data[pos:pos + len(w2)] == w2:
                    pos += len(w2)
                    out.probe('meta_raw_rendering')
                    continue

        got = data[pos:pos + len(want) + 16]
        k = 0

        while k < len(want) and k < len(got) and want[k] == got[k]:
            k += 1

        where = 'header' if k < len(hdr) else 'body'
        out.violate(prefix + '.bytes', '%s:%s:%s' % (tag, rec['type'], where),
                    {'section_index': ri, 'offset': pos + k,
                     'want': want[max(0, k - 20):k + 20],
                     'got': got[max(0, k - 20):k + 20]})
        return False

    if pos != len(data):
        out.violate(prefix + '.bytes', '%s:trailing' % tag,
                    {'extra': data[pos:pos + 40]})
        return False

    return True


def check_conformance(out, tag, data):
    """Direct grammar checks on a stored file, independent of the
    serializer: every header ASCII + grammar + canonical option order, legal
    ids in legal succession, length = distance to the next header, content
    ends in NL of its kind in its effective encoding, canonical JSON."""
    spans = []

    try:
        recs = R.ref_parse(data, spans)
    except R.RefReject as e:
        out.violate('C02.conform', '%s:%s' % (tag, e.kind),
                    {'section_index': e.index})
        return False

    if spans and spans[-1][2] != len(data):
        out.violate('C02.conform', '%s:trailing-bytes' % tag, None)
        return False

    for rec, (hs, he, ce) in zip(recs, spans):
        h = data[hs:he]

        if h != R.header(rec['section'], rec['options']):
            out.violate('C02.conform', '%s:header-not-canonical' % tag,
                        {'header': h})
            return False

        if rec['type'] == 'meta':
            eff = rec['_eff']
            body = data[he:ce]

            try:
                txt = body.decode(eff)
                md = json.loads(txt)
                c1 = R.canon_json(md) + '\n'
                c2 = json.dumps(md, indent=4, separators=(',', ': '),
                                sort_keys=True, ensure_ascii=False) + '\n'
            except Exception:
                out.violate('C02.conform', '%s:meta-unreadable' % tag, None)
                return False

            if txt not in (c1, c2):
                out.violate('C02.conform', '%s:json-not-canonical' % tag,
                            {'body': body[:80]})
                return False

            if rec['options'].get('format') != 'json':
                out.violate('C02.conform', '%s:meta-format' % tag, None)
                return False

    return True


def strip_private(recs):
    return [R.public(r) for r in recs]


def rec_equal(g, w):
    """Reader record vs reference record (public keys).  Returns the first
    differing key or None."""
    if not isinstance(g, dict):
        return '<not-a-dict>'

    w = R.public(w)

    for k in sorted(set(g) | set(w)):
        if k not in g:
            return '-' + k

        if k not in w:
            return '+' + k

        if k == 'options':
            d = cmp_options(g[k], w[k])

            if d is not None:
                return 'options' + d
        elif k == 'metadata':
            if not json_eq(g[k], w[k]):
                return '!metadata'
        elif type(g[k]) is not type(w[k]) or g[k] != w[k]:
            return '!' + k

    return None


def check_records_against_ref(out, oracle, tag, records, want):
    """records == reference parse (id, level, type, line, options, content)."""
    n = min(len(records), len(want))

    for i in range(n):
        d = rec_equal(records[i], want[i])

        if d is not None:
            out.violate(oracle, '%s:%s:%s' % (tag, want[i]['type'], d),
                        {'index': i, 'got': records[i],
                         'want': R.public(want[i])})
            return False

    return True


def gen_noise(rng, p=0.35):
    """Other users of the library in the same process (sharing its
    process-global tables): a writer whose calls are partly rejected, an
    object-model user.  Returns actor specs or []."""
    if not rng.chance(p):
        return []

    from dsim.props import c09
    acts = []
    scn = c09.generate(rng, 'quick', 'calls')
    w = scn['actors'][0]
    w = dict(w, id='N1', file='noise1', ops=w['ops'][:25])
    acts.append(w)

    if rng.chance(0.5):
        # a reader that parses an ordinary file before the judged one
        acts.append({'id': 'N3', 'kind': 'raw', 'file': 'noise3',
                     'hex': (b'#diffx: encoding=utf-8, version=1.0\n'
                             b'#.preamble: indent=4, length=6\n    p\n'
                             b'#.meta: format=json, length=9\n{"k": 1}\n'
                             b'#.change:\n#..preamble: length=2\nx\n'
                             b'#..meta: format=json, length=9\n{"k": 1}\n'
                             b'#..file:\n'
                             b'#...meta: format=json, length=9\n{"k": 1}\n'
                             b'#...diff: length=2\nx\n').hex()})
        acts.append({'id': 'N4', 'kind': 'reader', 'file': 'noise3'})
        acts.append({'id': 'N5', 'kind': 'dom_load', 'file': 'noise3',
                     'via': 'from_bytes'})

    if rng.chance(0.4):
        # ... and one that meets a truncated file (EOF inside a long,
        # unterminated header line)
        acts.append({'id': 'N6', 'kind': 'raw', 'file': 'noise6',
                     'hex': (b'#diffx: encoding=utf-8, version=1.0\n'
                             b'#.change:\n#..file: x-long=' + b'q' * 150).hex()})
        acts.append({'id': 'N7', 'kind': 'reader', 'file': 'noise6'})

    if rng.chance(0.4):
        # ... and readers that stop at a parse error half way, in either
        # header newline style (abandoned with their streams)
        for j, nl in enumerate([b'\n', b'\r\n'] if rng.chance(0.5)
                               else [b'\r\n']):
            acts.append({'id': 'N8%d' % j, 'kind': 'raw',
                         'file': 'noise8%d' % j,
                         'hex': (b'#diffx: encoding=utf-8, version=1.0' + nl +
                                 b'#.change:' + nl + b'#..file:' + nl +
                                 b'#..file:' + nl).hex()})
            acts.append({'id': 'N9%d' % j, 'kind': 'reader',
                         'file': 'noise8%d' % j})

    if rng.chance(0.4):
        from dsim import domgen
        ops = domgen.gen_tree_ops(rng, 'N.T1', max_changes=2, max_files=2,
                                  full=True)
        ops.append({'op': 'generate_stats', 'tree': 'N.T1', 'path': []})
        ops.append({'op': 'to_bytes', 'tree': 'N.T1'})
        acts.append({'id': 'N2', 'kind': 'dom', 'ops': ops})

    return acts


def run_noise(scn, L, out):
    """Run scn['noise'] (see gen_noise) to completion before the part of the
    scenario that is being judged.  Whatever those actors do - including
    calls the library rejects - must not change what other users observe."""
    noise = [a for a in scn.get('noise', ())
             if isinstance(a, dict) and a.get('kind') in (
                 'writer', 'dom', 'raw', 'reader', 'dom_load')]

    if not noise:
        return

    from dsim import domworld  # noqa: registers the dom actor kind
    w = make_world({'actors': noise, 'schedule': [], 'faults': []}, L)

    try:
        w.run()
    except Exception:
        pass

    out.steps += w.steps
    out.events += len(w.log)
    out.probe('noise_actors_ran')
