"""Seeded generators shared by the property profiles.  Everything random is
drawn from the Rng handed in."""

import json

from dsim import refmodel as R

# stateless text codecs of the C01 catalogue (canonical spellings the BOM
# table of the library knows; other spellings are C15's business)
ENCS = ['utf-8', 'utf-16', 'utf-16-le', 'utf-16-be', 'utf-32', 'utf-32-le',
        'utf-32-be', 'latin-1', 'cp1252', 'iso-8859-15', 'koi8-r', 'cp437',
        'ascii', 'cp037', 'cp500', 'shift_jis', 'euc-jp', 'gbk', 'gb18030',
        'big5', 'euc-kr', 'utf-8-sig', 'kz1048']
ENCS_COMMON = ['utf-8', 'utf-16', 'utf-32', 'latin-1']
# encodings under which a wrong choice is *visible* for non-ASCII text
ENCS_VISIBLE = ['utf-8', 'utf-16', 'utf-32-be', 'cp037', 'latin-1',
                'utf-16-be', 'shift_jis']

# alphabet built to collide with the format
ALPH = ['a', 'b', 'Z', '0', ' ', '\n', '\r', '\r\n', '#', '.', ':', '=',
        ',', '#.change:\n', '#..meta: length=1\n', '#diffx: version=1.0\n',
        '#...diff: length=3\n', '@@ -1 +1 @@\n', '+', '-', '@', '\\',
        '--- a\n', '+++ b\n', '\x00', '﻿', 'é', 'ÿ',
        'ੁ䄀', '਍', 'ഊ', '†', ' ', '\t', '  ',
        '    ', '\x0b', '\x0c', '\x1c', '\x85', ' ', '日本',
        'Ж', '\\ No newline at end of file\n', '{', '}', '"', '%',
        '€', 'e\u0301', '\u2126', 'A\u030a', '\u1100\u1161', '\ufb01',
        '\u00a0', '\u200b', '\u2028', '\u2029', '\x1d', '\x1e',
        '\U0001f600', '\U00010000', '\U0010ffff', '\u0130', '\u00df',
        '\u01c5', '\u200d', '\ufffd', '\ufffe', '\x7f', '\x1a', '\x08',
        # digits, spaces and letters only Unicode-aware predicates accept
        '\u0663', '\u00b2', '\u2460', '\uff11', '\u3000', '\u2003',
        '\u017f', '\u0131', '\u212a', '12', '-3', '1_0']

_ENC_OK = {}


def enc_ok(s, enc):
    key = (s, enc)
    r = _ENC_OK.get(key)

    if r is None:
        try:
            r = s.encode(enc).decode(enc) == s
        except Exception:
            r = False

        _ENC_OK[key] = r

    return r


def gen_text(rng, enc, maxparts=8, minparts=1):
    enc = enc or 'ascii'
    parts = []
    n = rng.randint(minparts, maxparts)

    for _ in range(n * 4):
        if len(parts) >= n:
            break

        p = rng.choice(ALPH)

        if enc_ok(p, enc):
            parts.append(p)

    t = ''.join(parts)
    return t if t else 'x'


def gen_json_value(rng, depth=0):
    k = rng.below(10 if depth < 2 else 7)

    if k == 0:
        return rng.randint(-5, 1000)
    elif k == 1:
        return rng.choice([True, False, None])
    elif k == 2:
        return rng.choice([1.5, -0.25, 1e20, 0.0, -0.0, 1e308, 5e-324,
                           100.0, -(2 ** 63), 2 ** 64, 10 ** 30,
                           123456789012345678])
    elif k in (3, 4, 5, 6):
        return gen_text(rng, 'utf-8', 4)
    elif k == 7:
        return [gen_json_value(rng, depth + 1)
                for _ in range(rng.randint(0, 3))]
    else:
        return _gen_metadata(rng, depth + 1, allow_empty=True)


def retype(v):
    """A JSON value that is == to v under Python's equality but not the same
    document (1 <-> True, 2 <-> 2.0)."""
    if isinstance(v, bool):
        return int(v)
    elif isinstance(v, int):
        if v in (0, 1):
            return bool(v)

        try:
            return float(v) if float(v) == v else v
        except OverflowError:
            return v
    elif isinstance(v, float) and v == int(v) and abs(v) < 1e15:
        return int(v)
    elif isinstance(v, dict):
        return {k: retype(x) for k, x in v.items()}
    elif isinstance(v, list):
        return [retype(x) for x in v]

    return v


_LAST_MD = [None]


def reset_state():
    """Generators keep a little state *within* one scenario (the previous
    metadata); it must never leak from one scenario into the next."""
    _LAST_MD[0] = None


def gen_metadata(rng, depth=0, allow_empty=False):
    if depth == 0 and not allow_empty:
        md = _gen_metadata(rng, depth, allow_empty)
        k = rng.below(12)

        if k == 0 and _LAST_MD[0] is not None:
            md = retype(_LAST_MD[0])        # == the previous one, other types
        elif k == 1 and _LAST_MD[0] is not None:
            md = json.loads(json.dumps(_LAST_MD[0]))    # the same again
        elif k == 2:
            md = {'revision': 1, 'ok': True, 'ratio': 2.0, 'n': 0}
        elif k == 5 and rng.chance(0.3):
            # keys whose order depends on what is compared (code points,
            # UTF-8 / UTF-16 units, case-folded or normalised text), values
            # at the edges of what JSON numbers and strings can hold
            md = {}

            for a in rng.sample([('\ufffe', '\U00010000'), ('a', 'B'),
                                 ('\u00e9', 'z'), ('10', '9'),
                                 ('a', 'a\u0301'), ('\u00e9', 'e\u0301'),
                                 ('k', 'K'), ('\u212a', 'k'), ('', ' '),
                                 ('x' * 300, 'x' * 299 + 'y'),
                                 ('a\x00', 'a'), ('"', '\\')], 3):
                for key in a:
                    md[key] = rng.choice([
                        0, -0.0, 1e16, 1e-7, 123456789.123456789,
                        2 ** 53 + 1, -(2 ** 63) - 1, 10 ** 400, 1.5e300,
                        5e-324, '\u2028\u2029', '\x00', '\u0301',
                        '\\u0061', '</script>', '\x7f\x80\x9f',
                        [[[[[[[[1]]]]]]]], [], {}, [{}], '', ' ', None,
                        True])

            if rng.chance(0.5):
                md = dict(reversed(list(md.items())))
        elif k == 4 and rng.chance(0.3):
            # large values of one recurring length (texts of equal size, one
            # after another)
            md = {'blob': rng.choice('abcdef') * 5000}
        elif k == 3 and rng.chance(0.2):
            # deeply nested / long
            inner = {'leaf': [1, 'x']}

            for d in range(rng.choice([10, 40])):
                inner = {'d%d' % d: inner, 'l': [inner]} if d % 7 == 0 \
                    else {'d%d' % d: inner}

            md = {'deep': inner, 'wide': {'k%03d' % i: i
                                          for i in range(rng.choice([30, 300,
                                                                    1200,
                                                                    2100,
                                                                    5000]))}}

        _LAST_MD[0] = md
        return md

    return _gen_metadata(rng, depth, allow_empty)


def _gen_metadata(rng, depth=0, allow_empty=False):
    d = {}
    n = rng.randint(0 if allow_empty else 1, 3)

    for _ in range(n):
        d[gen_text(rng, 'utf-8', 3)] = gen_json_value(rng, depth)

    if not d and not allow_empty:
        d['k'] = 1

    return d


DIFF_BYTES = [0, 10, 13, 32, 35, 46, 43, 45, 64, 255, 254, 97, 0x25, 0x15]


def gen_diff_bytes(rng, enc):
    if enc in ('utf-16', 'utf-32') and rng.chance(0.15):
        # a hunk from the middle of a file: no byte order mark
        body = gen_text(rng, enc, 8).encode(enc + '-le')
    elif enc and rng.chance(0.7):
        body = gen_text(rng, enc, 8).encode(enc)
    else:
        body = bytes(rng.choice(DIFF_BYTES)
                     for _ in range(rng.randint(1, 12)))

    if rng.chance(0.15):
        # context lines: lines that start with spaces
        body = ' context\n  more context\n'.encode(enc or 'ascii') + body

    return body


def pick_enc(rng, p_none=0.6, pool=None):
    if rng.chance(p_none):
        return None

    if pool is not None:
        return rng.choice(pool)

    return rng.choice(ENCS_COMMON) if rng.chance(0.4) else rng.choice(ENCS)


def gen_content_op(rng, name, scope_enc, pool=None, big=False):
    """One content op with valid arguments.  scope_enc = encoding inherited
    from the enclosing container (None for diffs handled by caller)."""
    op = {'op': 'write_' + name}
    own = pick_enc(rng, 0.6, pool)

    if own is not None:
        op['encoding'] = own
    elif rng.chance(0.1):
        op['encoding'] = None       # explicit None == omitted

    if name == 'preamble':
        eff = own or scope_enc
        op['text'] = gen_text(rng, eff, 60 if big else 8)

        if big and rng.chance(0.25):
            # long contents / long lines (well beyond any read-ahead block)
            op['text'] = op['text'] * rng.choice([20, 300, 2000])
        elif big and rng.chance(0.08) and enc_ok('l\n', eff):
            # very many short lines (more than 2**16)
            op['text'] = rng.choice(['l\n', 'l\r\n', '\n']) * \
                rng.choice([65535, 65536, 70001])

        if rng.chance(0.04 if not big else 0.3) and enc_ok('x', eff):
            # a long first line, at lengths around powers of two and block
            # multiples, ending in LF or CRLF
            k = rng.choice([94, 95, 96, 97, 191, 192, 1023, 1024, 1025, 4094,
                            4095, 4096, 4097, 8192, 70000])
            op['text'] = 'x' * k + rng.choice(['\n', '\r\n']) + op['text']
        k = rng.below(8)

        if k < 5:
            op['indent'] = [0, 1, 2, 4, 7, 40, 3, 5][rng.below(8)]

            if rng.chance(0.03) and op['text'].count('\n') < 40:
                op['indent'] = rng.choice([255, 256, 257, 300, 1000, 5000])
        # else: default indent (4)

        if rng.chance(0.5):
            op['line_endings'] = rng.choice(['unix', 'dos'])

        if rng.chance(0.4):
            op['mimetype'] = rng.choice(['text/plain', 'text/markdown'])
    elif name == 'meta':
        op['metadata'] = gen_metadata(rng)

        if rng.chance(0.15):
            op['meta_format'] = 'json'
    else:
        body = gen_diff_bytes(rng, own)

        if big and rng.chance(0.25):
            body = body * rng.choice([20, 300, 2000])
        elif big and rng.chance(0.08):
            body = rng.choice([b'+l\n', b'-l\r\n', b'\n']) * \
                rng.choice([65535, 65536, 70001])
        elif big and rng.chance(0.1):
            # exact sizes around powers of two (with the final newline)
            body = b'x' * (rng.choice([2 ** 16, 2 ** 17, 2 ** 12]) +
                           rng.choice([-2, -1, 0, 1])) + b'\n'

        if rng.chance(0.04 if not big else 0.3):
            k = rng.choice([95, 96, 97, 1023, 1024, 1025, 4095, 4096, 4097,
                            70000])
            nl = rng.choice(['\n', '\r\n'])
            body = ('x' * k + nl).encode(own or 'ascii') + body

        op['content_hex'] = body.hex()

        if rng.chance(0.5):
            op['line_endings'] = rng.choice(['unix', 'dos'])

        if rng.chance(0.4):
            op['diff_type'] = rng.choice(['text', 'binary'])

    if rng.chance(0.1):
        op['positional'] = True

    return op


def gen_history(rng, max_changes=3, max_files=3, pool=None, p_enc=0.4,
                main_pool=None, big=False, allow_partial=True):
    """A well-ordered writer history.  Returns (main_encoding, ops)."""
    main = rng.choice(main_pool or (ENCS_COMMON if rng.chance(0.5)
                                    else ENCS))

    if big and rng.chance(0.3):
        max_files = 40          # many sections
    elif big and rng.chance(0.2):
        max_changes, max_files = 400, 1     # > 1000 sections

    ops = []
    scope = [main]

    def cont(name, lvl):
        e = None if rng.chance(1 - p_enc) else \
            (rng.choice(pool) if pool else pick_enc(rng, 0.0))

        if e is not None and rng.chance(0.15):
            e = scope[min(lvl, len(scope)) - 1]   # what is in effect anyway

        op = {'op': 'new_' + name}

        if e is not None:
            op['encoding'] = e
        elif rng.chance(0.1):
            op['encoding'] = None       # explicit None == omitted

        del scope[lvl:]
        scope.append(e or scope[-1])
        ops.append(op)

    if rng.chance(0.5):
        ops.append(gen_content_op(rng, 'preamble', scope[-1], pool, big))

    if rng.chance(0.5):
        ops.append(gen_content_op(rng, 'meta', scope[-1], pool))

    for _ in range(rng.randint(1, max_changes)):
        cont('change', 1)

        if rng.chance(0.5):
            ops.append(gen_content_op(rng, 'preamble', scope[-1], pool, big))

        if rng.chance(0.5):
            ops.append(gen_content_op(rng, 'meta', scope[-1], pool))

        if ops[-1]['op'] == 'write_meta' and rng.chance(0.08):
            continue        # a change that holds metadata and no files

        for _ in range(rng.randint(1, max_files)):
            cont('file', 2)
            ops.append(gen_content_op(rng, 'meta', scope[-1], pool))

            if rng.chance(0.6):
                ops.append(gen_content_op(rng, 'diff', None, pool, big))

    if allow_partial and rng.chance(0.1):
        # a producer may stop mid-structure; what it wrote is still a
        # sequence of written sections
        del ops[rng.randint(1, len(ops)):]

    return main, ops


def filter_ops(main_encoding, ops, version='1.0'):
    """Keep only the ops the reference model predicts ACCEPT (so a shrunk or
    hand-edited history stays inside the 'accepted calls' domain).  Returns
    (kept ops, RefWriter after applying them)."""
    m = R.RefWriter(encoding=main_encoding, version=version)
    kept = []

    for op in ops:
        try:
            p = m.predict(op)
        except Exception:
            continue

        if p == R.ACCEPT:
            m.apply(op)
            kept.append(op)

    return kept, m


# --------------------------------------------------------------------------
# Foreign producer: a well-formed file written by "another implementation"
# --------------------------------------------------------------------------

def _json_style(rng, md, style):
    if style == 0:
        return json.dumps(md)
    elif style == 1:
        return json.dumps(md, indent=2, ensure_ascii=False)
    elif style == 2:
        return json.dumps(md, separators=(',', ':'))
    elif style == 3:
        return json.dumps(md, indent=4, sort_keys=True,
                          separators=(',', ': '))
    else:
        return json.dumps(md, indent=1, ensure_ascii=False, sort_keys=True)


UNKNOWN_LABEL = object()


def gen_foreign(rng, pool=None, shuffle=True, blanks=True, crlf=None,
                unknown_labels=False, nonfinite=False,
                drop_optional=True, json_styles=True, p_main_none=0.12,
                max_changes=3, max_files=3, big=False, meta_le=True,
                long_opts=False):
    """Returns a foreign spec (refmodel.render_foreign format).  Variations:
    option order shuffled, optional options dropped, blank lines between
    sections, all-CRLF header lines, compact / differently indented JSON, raw
    non-ASCII JSON in the section's encoding."""
    pool = pool or ENCS
    is_crlf = rng.chance(0.25) if crlf is None else crlf
    sections = []

    def hdr(sid, opts, body=b''):
        items = [(k, v) for k, v in opts if v is not None]

        if shuffle:
            rng.shuffle(items)
        else:
            items.sort()

        if long_opts and rng.chance(0.1):
            items.insert(rng.below(len(items) + 1),
                         ('x-id', 'v' * rng.choice([60, 100, 200])))

        if long_opts and rng.chance(0.1):
            # another producer's own options, with integer and integer-like
            # values (the same key again on later headers, other values)
            items.insert(rng.below(len(items) + 1),
                         (rng.choice(['x-rev', 'mode', 'schema']),
                          rng.choice(['100644', '-3', '007', '2', 'r12b',
                                      '13', '-0', '00', '1.0'])))

        head = '#%s:' % sid

        if items:
            head += ' ' + ', '.join('%s=%s' % kv for kv in items)

        blank = 0

        if blanks and not sections and rng.chance(0.05):
            blank = rng.randint(1, 3)       # before the main header
        elif blanks and sections and rng.chance(0.15):
            blank = rng.randint(1, 3)

            if rng.chance(0.1):
                blank = rng.choice([47, 48, 49, 95, 96, 97, 200, 1100,
                                    5000])

        sections.append({'blank': blank, 'head': head,
                         'body_hex': body.hex()})

    main_enc = None if rng.chance(p_main_none) else rng.choice(pool)
    scope = [main_enc]
    hdr('diffx', [('version', '1.0'), ('encoding', main_enc)])

    def content(sid):
        name = sid.lstrip('.')
        own = rng.choice(pool) if rng.chance(0.3) else None

        if name != 'diff' and scope[-1] is UNKNOWN_LABEL and own is None:
            own = rng.choice(pool)
        eff = own if name == 'diff' else (own or scope[-1])
        kind = rng.choice(['unix', 'dos'])
        nl = R.NL(kind, eff)
        opts = [('encoding', own)]

        if name == 'preamble':
            t = gen_text(rng, eff, 40 if big else 8)
            raw = t.encode(eff or 'ascii')

            if eff is None and rng.chance(0.3):
                # no encoding anywhere: "8-bit binary data" (spec) - bytes
                # that are text in *some* encoding the producer knew
                raw = gen_text(rng, 'utf-8', 6).encode(
                    rng.choice(['utf-8', 'latin-1']), 'replace')

            if rng.chance(0.3):
                opts.append(('mimetype',
                             rng.choice(['text/plain', 'text/markdown'])))
        elif name == 'meta':
            md = gen_metadata(rng)
            style = rng.below(5) if json_styles else 3
            t = _json_style(rng, md, style)

            if json_styles and rng.chance(0.06):
                # insignificant whitespace around the document
                t = rng.choice(['\n', '  ', '\n  ', '\t', '\n\n']) + t + \
                    rng.choice(['', '  ', '\n'])

            t0 = t

            if kind == 'dos':
                t = t.replace('\n', '\r\n')

            if nonfinite and rng.chance(0.04):
                # numbers beyond the float range and the Infinity literals
                # that Python's json module reads and writes
                # (also alone: numbers that are JSON by the letter and
                # become infinities when read)
                t0 = t = rng.choice([
                    '{"ratio": 1e999, "k": [Infinity, -Infinity, 1]}',
                    '{"ratio": 1e999, "k": [-1e999, 1]}',
                    '{"big": 2e400}'])
                kind = 'unix'
                nl = R.NL(kind, eff)

            if json_styles and rng.chance(0.03):
                # an object that repeats a key (once spelled with an
                # escape): the last member counts
                t0 = t = rng.choice([
                    '{"a": 2, "\\u0061": 1}', '{"k": "z", "k": "a", "n": 1}',
                    '{"p": {"q": 1}, "p": {"q": 0}}', '{"a": [2], "a": [1]}',
                    '{"b": 1, "a": 3, "b": 0}',
                    '{"path": "new", "p\\u0061th": "a-old"}'])
                kind = 'unix'
                nl = R.NL(kind, eff)

            try:
                raw = t.encode(eff or 'utf-8')
            except UnicodeError:
                t0 = t = json.dumps(md)
                raw = t.encode(eff or 'utf-8')

            if not meta_le and R.detect_bytes(
                    raw + (b'' if raw.endswith(nl) else nl), eff) != kind:
                # no line_endings option may be written for metadata in
                # this class: fall back to the newline kind that first-line
                # detection finds
                kind = 'unix'
                nl = R.NL(kind, eff)
                raw = t0.encode(eff or 'utf-8')

            if not drop_optional or rng.chance(0.6):
                opts.append(('format', 'json'))
        else:
            if eff in ('utf-16', 'utf-32') and rng.chance(0.2):
                # a hunk from the middle of a file: no byte order mark
                raw = gen_text(rng, eff, 8).encode(eff + '-le')
            elif eff:
                raw = gen_text(rng, eff, 8).encode(eff)
            else:
                raw = bytes(rng.choice(DIFF_BYTES)
                            for _ in range(rng.randint(1, 12)))

            if big and eff is None and rng.chance(0.5):
                # a large diff (beyond any buffering threshold) whose lines
                # contain lone LFs (dos) or lone CRs (unix)
                n = rng.choice([700, 9400, 12000])

                if kind == 'dos':
                    raw = b'ab\r\n' + b'cd\nef\r\n' * n
                else:
                    raw = b'ab\n' + b'cd\ref\n' * n

            elif eff is None and rng.chance(0.12):
                # a small diff with mixed line endings (its first line sets
                # the kind)
                n = rng.randint(1, 4)

                if kind == 'dos':
                    raw = b'ab\r\n' + b'cd\nef\r\n' * n
                else:
                    raw = b'ab\n' + b'cd\r\nef\n' * n

            if rng.chance(0.3):
                opts.append(('type', rng.choice(['text', 'binary'])))

            if rng.chance(0.2):
                # context lines (lines that start with spaces) first
                raw = (' context' + ('\r\n' if kind == 'dos' else '\n') +
                       '  two').encode(eff or 'ascii') + nl + raw

        if not raw.endswith(nl):
            raw += nl

        # line_endings may be omitted only where byte-level first-line
        # detection agrees with the producer's intent (spec is silent on
        # code-unit alignment; stay out of the corner)
        def both_readings_agree():
            # byte-level detection (a parser on stored content) and
            # character-level detection (a writer handed the text) must both
            # find the intended kind; they can differ when code units of
            # UTF-16/32 contain 0x0A / 0x0D off alignment
            if R.detect_bytes(raw, eff) != kind:
                return False

            if eff:
                try:
                    return R.detect_text(raw.decode(eff)) == kind
                except UnicodeError:
                    return False

            return True

        if name == 'meta' and not meta_le:
            pass
        elif name != 'meta' or rng.chance(0.3):
            if drop_optional and both_readings_agree() and rng.chance(0.5):
                pass
            else:
                opts.append(('line_endings', kind))
        elif not both_readings_agree():
            opts.append(('line_endings', kind))

        if name == 'preamble':
            ind = rng.choice([None, 0, 2, 4, 9])

            if ind is not None:
                opts.append(('indent', ind))

                if ind:
                    # (some producers leave empty lines unindented)
                    bare = rng.chance(0.3)

                    if rng.chance(0.25) and not raw.endswith(nl + nl):
                        raw += nl       # a final empty line

                    raw = b''.join(l if bare and l == nl else b' ' * ind + l
                                   for l in R.split_keep(raw, nl))

        opts.append(('length', '@'))
        hdr(sid, opts, raw)

    if rng.chance(0.5):
        content('.preamble')

    if rng.chance(0.5):
        content('.meta')

    for _ in range(rng.randint(1, max_changes)):
        ce = rng.choice(pool) if rng.chance(0.3) else None
        del scope[1:]
        scope.append(ce or scope[-1])
        hdr('.change', [('encoding', ce)])

        if rng.chance(0.5):
            content('..preamble')

        if rng.chance(0.5):
            content('..meta')

        same_fe = rng.choice(pool) if rng.chance(0.1) else None

        for _ in range(rng.randint(1, max_files)):
            fe = rng.choice(pool) if rng.chance(0.3) else None

            if same_fe is not None:
                fe = same_fe    # every file header of this change alike

            del scope[2:]
            scope.append(fe or scope[-1])

            if unknown_labels and fe is None and rng.chance(0.04):
                # a label this platform has no codec for, on a container
                # whose content sections all say what they are written in:
                # never needed, so never a reason to refuse the file
                hdr('..file', [('encoding', rng.choice(
                    ['x-user-defined', 'x-mac-cyrillic', 'utf-99']))])
                scope[-1] = UNKNOWN_LABEL
            else:
                hdr('..file', [('encoding', fe)])

            content('...meta')

            if rng.chance(0.6):
                content('...diff')

    return {'hnl': 'crlf' if is_crlf else 'lf',
            'tail_blank': (rng.choice([1, 2, 1, 2, 1100]) if blanks and
                           rng.chance(0.2) else 0),
            'sections': sections}


def gen_base_file(rng, max_changes=2, max_files=2, big=False, p_writer=0.5):
    """A well-formed file: (producer actor spec, expected stored bytes)."""
    if rng.chance(p_writer):
        main, ops = gen_history(rng, max_changes=max_changes,
                                max_files=max_files, big=big)
        kept, m = filter_ops(main, ops)
        return ({'id': 'P1', 'kind': 'writer', 'file': 'f1',
                 'main_encoding': main, 'ops': ops}, m.getvalue())

    spec = gen_foreign(rng, max_changes=max_changes, max_files=max_files,
                       big=big)
    return ({'id': 'P1', 'kind': 'raw', 'file': 'f1', 'foreign': spec},
            R.render_foreign(spec))


UNKNOWN_KEYS = ['x', 'X-y', 'my-option', 'another_option', 'length2', 'len',
                'lengthx', 'Length', 'LENGTH', 'encodingx', 'enc', 'indent2',
                'line-endings', 'line_ending', 'formats', 'vers', 'typ',
                'mime', 'a', 'z9', 'k_', 'k-', 'pad', 'self', 'keep_bytes',
                'preserve_trailing_newline', 'fp', 'cls', 'options', 'section',
                'content', 'data', 'kwargs', 'args', 'newline', 'lines',
                'level', 'line', 'text', 'metadata', 'diff', 'Indent',
                'Encoding', 'Format', 'LINE_ENDINGS', 'Version', 'TYPE',
                'Line_Endings', 'INDENT', 'ENCODING', 'lENGTH', 'MimeType']
UNKNOWN_VALUES = ['v', 'value', '1', '0', '-1', '42', '007', '-0', '1.0',
                  '1.5', 'abc', '/', '/x', './a', '-', '.', '_', 'a/b.c-d_e',
                  'utf-8', 'dos', 'json', 'text/plain', '99999999999999999999',
                  '-x', '..', 'A', '0x10', '1e3', 'True', 'None', 'nan',
                  'utf-16', 'utf-32', 'cp037', '2', '3', 'unix']


def int_corner(v):
    """Values on which Python's int() and the integer grammar -?[0-9]+
    disagree (stay out of the corner)."""
    return '_' in v and v.replace('_', '').lstrip('-').isdigit()


def gen_stream(rng):
    """(stream kind, buffer size): the plain sim handle, a real io.BytesIO,
    or a real io.BufferedReader over a raw sim stream (drawn buffer size)."""
    kind = rng.weighted([(12, 'sim'), (4, 'bytesio'), (4, 'buffered'),
                         (1, 'minimal'), (1, 'gzip'), (1, 'mmap'),
                         (1, 'spooled'), (1, 'file'), (1, 'gzipfile'),
                         (1, 'rawfile'), (1, 'fdfile')])
    return kind, (rng.choice([1, 2, 7, 64, 512, 8192])
                  if kind == 'buffered' else None)


def gen_stream_extras(rng):
    """{'prefix': n, 'late_rewind': bool, 'seek_none': bool, 'mutate': n}:
    how the stream is handed over and what the consumer does with the
    records it gets."""
    d = {}

    if rng.chance(0.12):
        d['prefix'] = rng.randint(1, 7)

    if rng.chance(0.06):
        d['late_rewind'] = True

    if rng.chance(0.06):
        d['seek_none'] = True       # seek() returns nothing (mmap < 3.13)

    if rng.chance(0.08):
        # the consumer edits the records it was handed
        d['mutate'] = rng.randint(1, 5)

    if rng.chance(0.1):
        # a second, unrelated reader alive and advanced alternately
        d['shadow'] = rng.below(50)

    if rng.chance(0.05):
        # a reader subclass that overrides the constructor only
        d['own_ctor'] = True

    if rng.chance(0.4):
        # records taken from reader.iter_sections() rather than
        # iter(reader) (the first reader of a scenario would otherwise
        # always be iterated the same way)
        d['via_iter_sections'] = True

    if rng.chance(0.05):
        # iterators asked for and dropped before the real iteration
        d['probe_iter'] = True

    if rng.chance(0.05):
        # a throw-away reader peeked at the first records of the stream
        d['prior_reader'] = rng.randint(1, 3)

    if rng.chance(0.08):
        # a raw / packet-like stream: reads inside header lines come up
        # short (takes effect on the simulated handles)
        d['short_hdr'] = rng.randint(0, 999)

    return d
