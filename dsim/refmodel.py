"""Independent reference model of the DiffX 1.0 specification.

Written from docs/spec/{section-format,sections,encodings}.rst and the
property statements.  Imports NOTHING from pydiffx, so that a mutation of a
table shared inside the library (VALID_SECTION_STATES, BOMS, NEWLINE_FORMATS)
cannot move the oracle together with the code.

Contents: hierarchy, header grammar, codec newline, serializer driven by the
same call records as DiffXWriter, parser with byte spans, renderer for
"foreign producer" files.
"""

import json
import re

# --------------------------------------------------------------------------
# Hierarchy (spec state tree; two evident typos corrected: "..change" under
# "..meta" read as ".change"; "..preamble -> ..meta" added as the hierarchy
# list and the writer tutorial require).
# --------------------------------------------------------------------------

NEXT = {
    None: ('diffx',),
    'diffx': ('.preamble', '.meta', '.change'),
    '.preamble': ('.meta', '.change'),
    '.meta': ('.change',),
    '.change': ('..preamble', '..meta', '..file'),
    '..preamble': ('..meta', '..file'),
    '..meta': ('.change', '..file'),
    '..file': ('...meta',),
    '...meta': ('...diff', '..file', '.change'),
    '...diff': ('..file', '.change'),
}

LEGAL_IDS = ('diffx', '.preamble', '.meta', '.change', '..preamble',
             '..meta', '..file', '...meta', '...diff')
CONTAINERS = {'diffx': 0, '.change': 1, '..file': 2}
CONTENT_NAMES = ('preamble', 'meta', 'diff')

# --------------------------------------------------------------------------
# Header grammar
# --------------------------------------------------------------------------

KEY_RE = re.compile(rb'[A-Za-z][A-Za-z0-9_-]*\Z')
VAL_RE = re.compile(rb'[A-Za-z0-9/._-]+\Z')
INT_RE = re.compile(r'-?[0-9]+\Z')
HEAD_RE = re.compile(rb'#(\.{0,3})([a-z]+):(?: (.*))?\Z', re.S)
KNOWN_OPTION_KEYS = ('length', 'encoding', 'indent', 'line_endings',
                     'format', 'mimetype', 'type', 'version')


def conv_value(v):
    """Option value as the reader must report it (str, or int if integer)."""
    if not INT_RE.match(v):
        return v

    try:
        return int(v)
    except ValueError:
        # more digits than this interpreter converts (CPython's limit on
        # integer string conversion, 4300 digits by default): no integer can
        # be made of it here, the value stays the text it is
        return v


def parse_header_line(h):
    """h: header line without its newline.  Returns (level, name, opts) or
    None if the line does not match the spec grammar."""
    m = HEAD_RE.match(h)

    if not m:
        return None

    opts = {}

    if m.group(3) is not None:
        if m.group(3) == b'':
            return None

        for pair in m.group(3).split(b', '):
            if b'=' not in pair:
                return None

            k, v = pair.split(b'=', 1)

            if not KEY_RE.match(k) or not VAL_RE.match(v):
                return None

            opts[k.decode('ascii')] = conv_value(v.decode('ascii'))

    return len(m.group(1)), m.group(2).decode('ascii'), opts


# --------------------------------------------------------------------------
# Codec newline, line splitting, first-line detection
# --------------------------------------------------------------------------

def NL(kind, enc):
    """Bytes `enc` appends when the newline follows other text: BOM-free by
    construction for every stateless codec, however `enc` is spelled."""
    s = '\n' if kind == 'unix' else '\r\n'
    enc = enc or 'ascii'
    return ('x' + s).encode(enc)[len('x'.encode(enc)):]


def split_keep(data, nl):
    # leftmost non-overlapping occurrences of nl, each line keeping its nl
    parts = data.split(nl)
    last = parts.pop()
    out = [p + nl for p in parts]

    if last:
        out.append(last)

    return out


def detect_text(text):
    i = text.find('\n')
    return 'dos' if i > 0 and text[i - 1] == '\r' else 'unix'


def detect_bytes(data, enc):
    lf = NL('unix', enc)
    crlf = NL('dos', enc)
    i = data.find(lf)

    if i >= 0 and data[:i + len(lf)].endswith(crlf):
        return 'dos'

    return 'unix'


def header(sid, opts):
    items = sorted((k, v) for k, v in opts.items() if v is not None)
    s = '#%s:' % sid

    if items:
        s += ' ' + ', '.join('%s=%s' % kv for kv in items)

    return s.encode('ascii') + b'\n'


def canon_json(md):
    return json.dumps(md, indent=4, separators=(',', ': '), sort_keys=True)


# --------------------------------------------------------------------------
# Serializer / call model.  Driven by op dicts (the scenario format):
#   {"op": "new_change"|"new_file", "encoding": e?}
#   {"op": "write_preamble", "text": str, "encoding"?, "indent"?,
#    "line_endings"?, "mimetype"?}
#   {"op": "write_meta", "metadata": {...}, "encoding"?}
#   {"op": "write_diff", "content_hex": "..", "diff_type"?, "encoding"?,
#    "line_endings"?}
# A key that is absent means "argument not passed".
# --------------------------------------------------------------------------

ACCEPT = 'accept'
REJECT_ORDER = 'reject-order'
REJECT_ARG = 'reject-arg'

MIMETYPES = ('text/plain', 'text/markdown')
DIFF_TYPES = ('text', 'binary')
LINE_ENDINGS = ('unix', 'dos')


def codec_known(enc):
    try:
        'x'.encode(enc)
        return True
    except (LookupError, TypeError):
        return False
    except Exception:
        return True


def has_tag(v):
    if isinstance(v, dict):
        if len(v) == 1 and next(iter(v)).startswith('$'):
            return True

        return any(has_tag(x) for x in v.values())
    elif isinstance(v, list):
        return any(has_tag(x) for x in v)

    return False


class RefWriter(object):
    """Spec serializer driven by the same calls as DiffXWriter."""

    def __init__(self, encoding='utf-8', version='1.0'):
        self.out = [header('diffx', {'encoding': encoding,
                                      'version': version})]
        self.scope = [encoding]
        self.prev = 'diffx'
        self.level = 0
        self.records = [dict(
            section='diffx', level=0, type='diffx',
            options={k: v for k, v in (('encoding', encoding),
                                       ('version', version))
                     if v is not None})]

    def would_write(self, op):
        name = op['op']

        if name == 'new_change':
            return '.change'
        elif name == 'new_file':
            return '..file'
        else:
            return '.' * (self.level + 1) + name[len('write_'):]

    def legal(self, sid):
        return sid in NEXT[self.prev]

    def predict(self, op):
        """ACCEPT / REJECT_ORDER / REJECT_ARG for valid-looking ops; does not
        change state.  Argument validity is judged the way the statement of
        C09 lists it: wrong content type, empty content, invalid choice,
        unencodable text."""
        sid = self.would_write(op)
        name = op['op']
        own = op.get('encoding')

        # scenario values tagged {"$bytes": ..} / {"$float": ..} / ... stand
        # for Python values JSON cannot express: never a valid argument here
        if any(has_tag(v) for k, v in op.items() if k != 'op'):
            return REJECT_ARG

        # an encoding argument outside "a known codec name that can stand
        # as an option value" is outside the domain of valid arguments
        if own is not None and not (
                isinstance(own, str) and own and codec_known(own) and
                VAL_RE.match(own.encode('utf-8', 'replace'))):
            return REJECT_ARG

        if name in ('new_change', 'new_file'):
            return ACCEPT if self.legal(sid) else REJECT_ORDER

        # content ops: argument faults
        if name == 'write_preamble':
            text = op.get('text')

            if not isinstance(text, str) or not text:
                return REJECT_ARG

            if op.get('mimetype') is not None and \
               op['mimetype'] not in MIMETYPES:
                return REJECT_ARG

            ind = op.get('indent', 4)

            # (an explicit indent=None is outside the domain the properties
            # state - "indent >= 0" - and the writer's documentation does
            # not say what it means: not modelled)
            if not isinstance(ind, int) or isinstance(ind, bool) or ind < 0:
                return REJECT_ARG
        elif name == 'write_meta':
            md = op.get('metadata')

            if not isinstance(md, dict) or not md:
                return REJECT_ARG

            if op.get('meta_format', 'json') != 'json':
                return REJECT_ARG

            try:
                if json.loads(canon_json(md)) != md:
                    return REJECT_ARG       # not JSON-native (NaN, ...)
            except (TypeError, ValueError):
                return REJECT_ARG
        elif name == 'write_diff':
            if 'content' in op or not isinstance(op.get('content_hex'), str) \
               or op.get('content_hex') == '':
                return REJECT_ARG

            try:
                bytes.fromhex(op['content_hex'])
            except ValueError:
                return REJECT_ARG

            if op.get('diff_type') is not None and \
               op['diff_type'] not in DIFF_TYPES:
                return REJECT_ARG

        le = op.get('line_endings')

        if name != 'write_meta' and le is not None and \
           le not in LINE_ENDINGS:
            return REJECT_ARG

        if not self.legal(sid):
            return REJECT_ORDER

        eff = self.effective(op)

        if name != 'write_diff':
            if eff is None or not codec_known(eff):
                return REJECT_ARG

            s = op['text'] if name == 'write_preamble' \
                else canon_json(op['metadata'])

            try:
                s.encode(eff)
            except (UnicodeError, LookupError):
                return REJECT_ARG
        elif eff is not None and not codec_known(eff):
            return REJECT_ARG

        return ACCEPT

    def effective(self, op):
        own = op.get('encoding')

        if op['op'] == 'write_diff':
            return own

        return own or self.scope[-1]

    def apply(self, op):
        """Apply an op predicted ACCEPT; returns the record."""
        name = op['op']

        if name in ('new_change', 'new_file'):
            lvl = 1 if name == 'new_change' else 2
            sid = self.would_write(op)
            enc = op.get('encoding')
            del self.scope[lvl:]
            self.scope.append(enc or self.scope[-1])
            self.level = lvl
            self.prev = sid
            self.out.append(header(sid, {'encoding': enc}))
            rec = dict(section=sid, level=lvl, type=name[4:],
                       options={} if enc is None else {'encoding': enc})
            self.records.append(rec)
            return rec

        sid = self.would_write(op)
        own = op.get('encoding')
        eff = self.effective(op)
        opts = {}
        indent = None
        write_le = True

        if name == 'write_preamble':
            content = op['text']
            indent = op.get('indent', 4)
            opts['mimetype'] = op.get('mimetype')
        elif name == 'write_meta':
            content = canon_json(op['metadata'])
            opts['format'] = op.get('meta_format', 'json')
            write_le = False
        else:
            content = bytes.fromhex(op['content_hex'])
            opts['type'] = op.get('diff_type')

        le = op.get('line_endings') if name != 'write_meta' else None

        if isinstance(content, str):
            kind = le or detect_text(content)
            data = content.encode(eff)
        else:
            kind = le or detect_bytes(content, eff)
            data = content

        nl = NL(kind, eff)

        if not data.endswith(nl):
            data += nl

        plain = data

        if indent:
            data = b''.join(b' ' * indent + l for l in split_keep(data, nl))

        opts.update(encoding=own, indent=indent, length=len(data))

        if write_le:
            opts['line_endings'] = kind

        self.out.append(header(sid, opts))
        self.out.append(data)
        self.prev = sid
        rec = dict(section=sid, level=self.level + 1,
                   type=name[len('write_'):],
                   options={k: v for k, v in opts.items() if v is not None})
        rec['_plain'] = plain
        rec['_eff'] = eff
        rec['_nl'] = nl
        rec['_kind'] = kind
        self.records.append(rec)
        return rec

    def getvalue(self):
        return b''.join(self.out)


def expected_record_content(rec, op):
    """What the reader must yield as content for a written section, from the
    call log (not from the bytes)."""
    t = rec['type']

    if t == 'preamble':
        return 'text', rec['_plain'].decode(rec['_eff'])
    elif t == 'meta':
        return 'metadata', op['metadata']
    else:
        return 'diff', rec['_plain']


# --------------------------------------------------------------------------
# Parser
# --------------------------------------------------------------------------

class RefReject(Exception):
    def __init__(self, kind, index, span):
        Exception.__init__(self, kind)
        self.kind = kind
        self.index = index      # index of the offending section
        self.span = span        # (first logical line, last logical line)


def ref_parse(data, spans=None, partial=None):
    """Spec reading of a file.  Returns records; raises RefReject for the
    first spec violation.  `spans` (list) receives, per record,
    (header_start, header_end, content_end) byte offsets.  `partial` (list)
    receives the records accepted before a RefReject."""
    pos = 0
    recs = partial if partial is not None else []
    prev = None
    line = 0
    fnl = None
    scope = []

    while True:
        while True:
            j = data.find(b'\n', pos)

            if j < 0:
                return recs

            raw = data[pos:j + 1]

            if raw.strip():
                break

            pos = j + 1

        if fnl is None:
            fnl = b'\r\n' if raw.endswith(b'\r\n') else b'\n'

        if not raw.endswith(fnl):
            raise RefReject('header-newline', len(recs), (line, line))

        hstart = pos
        h = raw[:-len(fnl)]
        pos = j + 1
        parsed = parse_header_line(h)

        if parsed is None:
            raise RefReject('header-grammar', len(recs), (line, line))

        lvl, name, opts = parsed
        sid = '.' * lvl + name

        if sid not in NEXT.get(prev, ()):
            raise RefReject('order', len(recs), (line, line))

        rec = dict(level=lvl, line=line, options=opts, section=sid,
                   type=name)
        hline = line
        line += 1

        if sid in CONTAINERS:
            if sid == 'diffx' and opts.get('version') != '1.0':
                raise RefReject('version', len(recs), (hline, hline))

            del scope[lvl:]
            scope.append(opts.get('encoding', scope[-1] if scope else None))
        else:
            if 'length' not in opts:
                raise RefReject('length', len(recs), (hline, hline))

            n = opts['length']

            if not isinstance(n, int) or n < 0:
                raise RefReject('length-value', len(recs), (hline, hline))

            content = data[pos:pos + n]

            if len(content) < n:
                raise RefReject('length-beyond-eof', len(recs),
                                (hline, hline + 1 + content.count(b'\n')))

            pos += n
            own = opts.get('encoding')

            if name == 'diff':
                eff = own
            else:
                eff = own if own is not None else scope[-1]

            if eff is not None and (not isinstance(eff, str) or
                                    not codec_known(eff)):
                raise RefReject('encoding', len(recs), (hline, hline + 1))

            le = opts.get('line_endings')

            if le is not None and le not in ('unix', 'dos'):
                raise RefReject('line_endings', len(recs),
                                (hline, hline + 1))

            if n == 0:
                raise RefReject('newline', len(recs), (hline, hline + 1))

            kind = le or detect_bytes(content, eff)
            nl = NL(kind, eff)
            lines = split_keep(content, nl)
            span = (hline, hline + len(lines))

            if name == 'meta' and opts.get('format', 'json') != 'json':
                raise RefReject('format', len(recs), span)

            ind = opts.get('indent') if name == 'preamble' else None

            if ind is not None and (not isinstance(ind, int) or ind < 0):
                raise RefReject('indent', len(recs), span)

            if ind:
                lines2 = []

                for l in lines:
                    # up to `ind` leading spaces go
                    head = l[:ind]
                    lines2.append(l[len(head) - len(head.lstrip(b' ')):])

                content = b''.join(lines2)

            if not content.endswith(nl):
                raise RefReject('newline', len(recs), span)

            try:
                if name == 'preamble':
                    rec['text'] = content.decode(eff) if eff else content
                elif name == 'meta':
                    try:
                        rec['metadata'] = json.loads(
                            content.decode(eff) if eff else content)
                    except UnicodeDecodeError:
                        raise
                    except ValueError:
                        raise RefReject('json', len(recs), span)
                else:
                    rec['diff'] = content
            except UnicodeDecodeError:
                raise RefReject('decode', len(recs), span)

            rec['_eff'] = eff
            rec['_kind'] = kind
            line += len(lines)

        prev = sid
        recs.append(rec)

        if spans is not None:
            spans.append((hstart, j + 1, pos))


def public(rec):
    """Record without the model's private (underscore) keys."""
    return {k: v for k, v in rec.items() if not k.startswith('_')}


# --------------------------------------------------------------------------
# Foreign-producer renderer.  A foreign file in a scenario is
#   {"hnl": "lf"|"crlf", "tail_blank": n,
#    "sections": [{"blank": n, "head": "#..meta: length=@, format=json",
#                  "body_hex": "..."}]}
# "@" in a head is replaced by the byte length of the body.  The generator
# does the thinking (gen.py); the renderer is a trivial total function so a
# shrunk spec always renders.
# --------------------------------------------------------------------------

def render_foreign(spec):
    hnl = b'\r\n' if spec.get('hnl') == 'crlf' else b'\n'
    out = []

    for s in spec.get('sections', ()):
        body = bytes.fromhex(s.get('body_hex', ''))

        for _ in range(int(s.get('blank', 0))):
            out.append(hnl)

        if 'head_hex' in s:
            head = bytes.fromhex(s['head_hex'])
        else:
            head = s.get('head', '').encode('utf-8', 'surrogateescape')

        head = head.replace(b'@', str(len(body)).encode('ascii'))
        out.append(head + hnl)
        out.append(body)

    for _ in range(int(spec.get('tail_blank', 0))):
        out.append(hnl)

    return b''.join(out)
