"""C02 — writer emits only spec-conformant, canonical bytes.

Same pipelines as C01; the observation point is the write trace of the
SimWriteHandle; the oracle is the independent reference serializer, byte for
byte, plus direct grammar checks on the stored file.
"""

from dsim import pipe
from dsim.props import c01

ID = 'C02'
LEVEL = 'exploration'
CLASSES = [('fault_free', 7), ('with_rejections', 3)]
RULE = c01.RULE.replace('in 1-3 interleaved pipelines',
                        'in 1-3 interleaved writer actors')
ASSUMPTIONS = c01.ASSUMPTIONS + [
    'one tolerance: a metadata body may be either conformant rendering of '
    'non-ASCII characters (\\u-escaped or raw in the section encoding); '
    'everything else is byte-exact',
    'indentation is applied per line as delimited by the encoded newline '
    'byte sequence (the only reading a parser can invert)',
]
STATE_MEASURE = c01.STATE_MEASURE


def may_class(op):
    """True for argument variants the API does not promise to reject (their
    acceptance proves nothing about conformance)."""
    from dsim.props import c09
    m = c09.Model('utf-8')

    try:
        return m.arg_class(op) == c09.MAY
    except Exception:
        return True


def generate(rng, tier, cls):
    if cls == 'with_rejections':
        # the accepted calls of a history that also contains rejected ones
        # (out of order / invalid arguments): the stream must still be the
        # canonical serialisation of exactly the accepted calls
        from dsim.props import c09
        scn = c09.generate(rng, tier, 'calls')
        scn['keep_rejected'] = True
        return scn

    if rng.chance(0.15):
        # codec names as users spell them: the header must carry the name
        # exactly as it was passed
        from dsim import codecs_cat, gen
        cat = codecs_cat.catalogue()['codecs']
        pool = []

        for c in rng.sample(sorted(cat), 3):
            pool.extend(rng.sample(cat[c], min(4, len(cat[c]))))

        actors, sched = c01.gen_pipelines(rng, tier, npipes=1, pool=pool)
        actors[0]['main_encoding'] = rng.choice(pool)
        return {'actors': actors, 'schedule': sched, 'faults': []}

    return c01.generate(rng, tier, cls)


def execute(scn, L):
    out = pipe.Outcome()
    actors = []

    for a in scn.get('actors', ()):
        if a.get('kind') == 'writer':
            if scn.get('keep_rejected'):
                if pipe.effective_writer_spec(dict(a, ops=[])) is None:
                    out.discarded = 'outside-domain'
                    return out

                a = dict(a, ops=[op for op in a.get('ops', ())
                                 if isinstance(op, dict) and 'op' in op])
            else:
                a = pipe.effective_writer_spec(a)

                if a is None:
                    out.discarded = 'outside-domain'
                    return out

            actors.append(a)
        # readers are irrelevant to C02; keeping them out keeps runs cheap

    w = pipe.make_world(scn, L, actors)
    w.run()
    out.absorb(w)
    out.case_key = pipe.scn_digest(actors)

    for a in w.actors.values():
        if a.kind != 'writer':
            continue

        m, acc = pipe.model_from_calls(a)
        data = w.visible(a.spec['file'])

        if any(c['outcome'] == 'raise' for c in a.calls):
            out.probe('history_with_rejected_calls')

        if m is None:
            # the writer accepted a call the reference model cannot follow
            # (a may-reject argument, or a wrongly accepted call): no byte
            # oracle, but the stream must still be grammatical and legally
            # ordered
            out.probe('writer_unusable:' + acc)

            if acc == 'writer-accepted-unpredicted' and \
               not any(may_class(op) for op in a.ops):
                pipe.check_conformance(out, 'writer', data)

            continue

        if len(acc) != len(a.ops):
            out.probe('writer_rejected_valid_call')

        pipe.check_bytes_against_model(out, 'writer', data, m, acc)
        pipe.check_conformance(out, 'writer', data)

        # every write() only appended (the handle cannot do otherwise) and
        # the bytes arrived in this order
        if sum(n for _, n in a.handle.file.writes) != len(data):
            out.violate('C02.trace', 'write-trace-length', None)

        prev = None

        for r in m.records:
            out.states.add(c01.op_state(prev, r))
            prev = r['section']

        if c01.nontrivial_model(m):
            out.nontrivial = True

        for r in m.records:
            if '_plain' in r:
                e = r['_eff'] or ''

                if e in ('utf-16', 'utf-32') and \
                   r['options'].get('indent'):
                    out.probe('bom_codec_under_indent')

                if r['type'] == 'diff' and 'encoding' not in r['options']:
                    out.probe('diff_without_encoding')

    return out
