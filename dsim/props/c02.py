"""C02 — writer emits only spec-conformant, canonical bytes.

Same pipelines as C01; the observation point is the write trace of the
SimWriteHandle; the oracle is the independent reference serializer, byte for
byte, plus direct grammar checks on the stored file.
"""

from dsim import pipe
from dsim.props import c01

ID = 'C02'
LEVEL = 'exploration'
CLASSES = [('fault_free', 1)]
RULE = c01.RULE.replace('in 1-3 interleaved pipelines',
                        'in 1-3 interleaved writer actors')
ASSUMPTIONS = c01.ASSUMPTIONS + [
    'one tolerance: a metadata body may be either conformant rendering of '
    'non-ASCII characters (\\u-escaped or raw in the section encoding); '
    'everything else is byte-exact',
    'indentation is applied per line as delimited by the encoded newline '
    'byte sequence (the only reading a parser can invert)',
]
STATE_MEASURE = c01.STATE_MEASURE


def generate(rng, tier, cls):
    return c01.generate(rng, tier, cls)


def execute(scn, L):
    out = pipe.Outcome()
    actors = []

    for a in scn.get('actors', ()):
        if a.get('kind') == 'writer':
            a = pipe.effective_writer_spec(a)

            if a is None:
                out.discarded = 'outside-domain'
                return out

            actors.append(a)
        # readers are irrelevant to C02; keeping them out keeps runs cheap

    w = pipe.make_world(scn, L, actors)
    w.run()
    out.absorb(w)
    out.case_key = pipe.scn_digest(actors)

    for a in w.actors.values():
        if a.kind != 'writer':
            continue

        m, acc = pipe.model_from_calls(a)

        if m is None:
            out.probe('writer_unusable:' + acc)
            continue

        if len(acc) != len(a.ops):
            out.probe('writer_rejected_valid_call')

        data = w.visible(a.spec['file'])
        pipe.check_bytes_against_model(out, 'writer', data, m, acc)
        pipe.check_conformance(out, 'writer', data)

        # every write() only appended (the handle cannot do otherwise) and
        # the bytes arrived in this order
        if sum(n for _, n in a.handle.file.writes) != len(data):
            out.violate('C02.trace', 'write-trace-length', None)

        prev = None

        for r in m.records:
            out.states.add(c01.op_state(prev, r))
            prev = r['section']

        if c01.nontrivial_model(m):
            out.nontrivial = True

        for r in m.records:
            if '_plain' in r:
                e = r['_eff'] or ''

                if e in ('utf-16', 'utf-32') and \
                   r['options'].get('indent'):
                    out.probe('bom_codec_under_indent')

                if r['type'] == 'diff' and 'encoding' not in r['options']:
                    out.probe('diff_without_encoding')

    return out
