"""C10 — the reader accepts exactly the section orders the hierarchy allows.

A byzantine producer emits syntactically valid section headers (with valid
content where the name calls for it) in arbitrary order: the 9 legal ids plus
every other level x name combination for levels 0-4 and unknown names.
Oracle (successor relation typed in from the spec, refmodel.NEXT): the reader
yields exactly the sections up to the first one that may not follow its
predecessor and raises DiffXParseError there; a fully legal sequence is read
to the end.
"""

import io

from dsim import gen, pipe
from dsim import refmodel as R
from dsim.actors import (read_all, read_twice, exc_summary,
                         header_short_reads)
from dsim.actors import STREAM_KINDS
from dsim.world import World

ID = 'C10'
LEVEL = 'exploration'
CLASSES = [('walk', 1)]
TIERS = {'quick': {}}
NAMES = ['diffx', 'preamble', 'meta', 'change', 'file', 'diff']
UNKNOWN = ['foo', 'files', 'changes', 'x', 'diffxx', 'prea']
CANDIDATES = ['.' * lvl + n for lvl in range(0, 5) for n in NAMES] + \
    ['.' * lvl + n for lvl in (0, 1, 2, 3) for n in UNKNOWN[:3]]
RULE = ('seeded random walks over section ids (9 legal ids + %d illegal '
        'level/name combinations incl. level 4 and unknown names), biased to '
        'stay legal for several steps and then deviate, each id rendered as a '
        'minimal valid header (+ valid content); plus sweep tasks: every '
        'candidate id after every legal prefix up to a bounded length; '
        'non-trivial = the sequence has >= 3 sections and either deviates '
        'after >= 2 legal steps or is fully legal with >= 5 sections; '
        'distinct = the id sequence' % (len(CANDIDATES) - 9))
ASSUMPTIONS = [
    'successor relation = the spec state tree with its two evident typos '
    'corrected ("..change" under "..meta" read as ".change"; '
    '"..preamble -> ..meta" added, as the hierarchy list requires)',
]
STATE_MEASURE = ('distinct (previous id, next id) pairs and (prev2, prev, '
                 'next) triples reached')


# lines that are neither blank (ASCII whitespace only) nor headers: a
# reader stops at them with a parse error, whatever came before
JUNK_LINES = [b'\xc2\xa0', b'\xe2\x80\xa8', b'\xc2\x85', b'\x1c', b'\x1f',
              b'\xe3\x80\x80', b' #.change:', b'\t#..file:', b'#', b'x',
              b'\xa0', b'\x85', b'.change:', b'#.Change:',
              b'#.chan\xffge:', b'#..\xfefile:', b'#.\xc3\xa9change:',
              b'#..fi\xc2\xadle:', b'#...me\xe2\x80\x8bta: length=2',
              b'#.change\xef\xbb\xbf:', b'\xef\xbb\xbf#.change:',
              b'\xef\xbb\xbf#..file:', b'\xff\xfe#.change:']


def render(ids, crlf=False, style=None, junk=None):
    """style: optional list, one small int per section, selecting header
    variations that never change whether the id may follow its predecessor
    (extra options, blank lines before the header, a very long header)."""
    nl = b'\r\n' if crlf else b'\n'
    out = []
    # the encoding declared by the enclosing change / file, if any
    cenc = {1: None, 2: None}

    def tx(sid, body):
        # text content under the nearest declared encoding
        lvl = len(sid) - len(sid.lstrip('.'))
        eff = 'utf-8'

        if lvl >= 2 and cenc[1]:
            eff = cenc[1]

        if lvl >= 3 and cenc[2]:
            eff = cenc[2]

        return body if eff in ('utf-8', 'latin-1') else \
            body.decode('ascii').encode(eff)

    for i, sid in enumerate(ids):
        name = sid.lstrip('.')
        st = style[i] if style and i < len(style) and \
            isinstance(style[i], int) else 0
        extra = b''

        if name == 'change':
            cenc[1] = cenc[2] = None
        elif name == 'file':
            cenc[2] = None

        if junk and junk[0] == i:
            # (terminated like the headers, or - every other draw - by a
            # bare LF, which in a CRLF file makes it no header line either)
            out.append(JUNK_LINES[junk[1] % len(JUNK_LINES)] +
                       (nl if (junk[1] // len(JUNK_LINES)) % 2 == 0
                        else b'\n'))

        if st & 1:
            # blank lines (before the first header too; there in either
            # newline style: the file's style is set by its first *header*)
            out.append((nl if i > 0 or st & 16 else
                        (b'\n' if crlf else b'\r\n')) *
                       (1 + (st >> 5) % 3 if st & 0xe0 != 0xe0 else 1200))

            if st & 2 and st & 64:
                # a line of spaces / tabs only is a blank line too
                out.append([b'    ', b'\t', b' \t '][(st >> 3) % 3] + nl)

        if st & 2:
            # (the key also as short as a key can be: one letter)
            extra = (b', p=' if st & 256 else b', x-pad=') + \
                b'p' * [40, 200, 9000][(st >> 6) % 3]

        if name in ('preamble', 'meta') and st & 4 and not st & 8:
            # big-endian text with a byte order mark under the generic codec
            # name
            body = ('x\n' if name == 'preamble' else '{"k": 1}\n').encode(
                'utf-16-be' if st & 32 else 'utf-32-be')
            body = (b'\xfe\xff' if st & 32 else b'\x00\x00\xfe\xff') + body
            out.append(b'#' + sid.encode() + b': encoding=' +
                       (b'utf-16' if st & 32 else b'utf-32') +
                       (b', format=json' if name == 'meta' else b'') +
                       (b', length=%d' % len(body)) + extra + nl + body)
            continue

        if name == 'diff' and st & 4:
            out.append(b'#' + sid.encode() + b': length=2, type=' +
                       (b'binary' if st & 8 else b'text') + extra + nl +
                       b'x\n')
            continue
        elif name == 'preamble' and st & 8 and st & 64:
            # an indented preamble that consists of one empty line
            out.append(b'#' + sid.encode() + b': indent=4, length=%d'
                       % len(tx(sid, b'\n')) + extra + nl + tx(sid, b'\n'))
            continue
        elif name in ('preamble', 'diff') and st & 8 and st & 128:
            # content that starts with empty lines
            body = b'\n\nx\n' if name == 'diff' else tx(sid, b'\n\nx\n')
            out.append(b'#' + sid.encode() +
                       b': length=%d, line_endings=unix' % len(body) +
                       extra + nl + body)
            continue
        elif name in ('preamble', 'diff') and st & 8:
            body = b'x\n' if name == 'diff' else tx(sid, b'x\n')
            out.append(b'#' + sid.encode() +
                       b': length=%d, line_endings=unix' % len(body) +
                       extra + nl + body)
            continue
        elif name in ('change', 'file') and st & 4 and st & 8:
            # a length on a container is an option like any other (nothing
            # is read for it)
            out.append(b'#' + sid.encode() + b': length=' +
                       [b'20', b'9', b'40', b'0'][(st >> 5) % 4] + extra
                       + nl)
            continue
        elif name in ('change', 'file') and st & 4:
            # (an encoding of another width: what follows a sibling that
            # declared one is read under the parent's again)
            enc = ['latin-1', 'utf-16-le', 'latin-1', 'utf-32-be'][
                (st >> 5) % 4]
            cenc[1 if name == 'change' else 2] = enc
            out.append(b'#' + sid.encode() + b': encoding=' + enc.encode()
                       + extra + nl)
            continue
        elif extra and name in ('change', 'file') :
            out.append(b'#' + sid.encode() + b':' + extra[1:] + nl)
            continue

        if name == 'diffx':
            out.append(b'#' + sid.encode() + b': encoding=utf-8, version=1.0'
                       + nl)
        elif name == 'preamble':
            out.append(b'#' + sid.encode() + b': length=%d'
                       % len(tx(sid, b'x\n')) + nl + tx(sid, b'x\n'))
        elif name == 'meta' and st & 16:
            # metadata whose content describes a copy / move / delete: what
            # may follow a section never depends on what the section says
            body = [b'{"op": "copy"}\n', b'{"op": "move", "path": '
                    b'{"old": "a", "new": "b"}}\n',
                    b'{"op": "delete"}\n', b'{"stats": {"files": 0}}\n',
                    # an object that names a key twice (the second time with
                    # an escape), with values that have no order
                    b'{"k": {"a": 1}, "\\u006b": {"b": 2}}\n',
                    b'{"k": null, "k": 1, "k": "s"}\n'][
                        ((st >> 6) % 4) + (2 if st & 512 and (st >> 6) % 4 > 1
                                           else 0)]
            body = tx(sid, body)
            out.append(b'#' + sid.encode() + b': format=json, length=%d'
                       % len(body) + nl + body)
        elif name == 'meta':
            body = tx(sid, b'{"k": 1}\n')
            out.append(b'#' + sid.encode() + b': format=json, length=%d'
                       % len(body) + nl + body)
        elif name == 'diff':
            out.append(b'#' + sid.encode() + b': length=2' + nl + b'x\n')
        else:
            out.append(b'#' + sid.encode() + b':' + nl)

    return b''.join(out)


def first_illegal(ids):
    prev = None

    for i, sid in enumerate(ids):
        if sid not in R.NEXT.get(prev, ()):
            return i

        prev = sid

    return None


def generate(rng, tier, cls):
    ids = []
    prev = None
    n = rng.randint(1, 14)
    p_dev = rng.choice([0.0, 0.05, 0.1, 0.3])

    for _ in range(n):
        legal = R.NEXT.get(prev, ())

        if legal and not rng.chance(p_dev):
            sid = rng.choice(legal)
        else:
            sid = rng.choice(CANDIDATES)

        ids.append(sid)

        if sid not in legal:
            # emit a little more after the deviation: nothing after the
            # rejected section may be yielded
            for _ in range(rng.randint(0, 2)):
                ids.append(rng.choice(R.LEGAL_IDS))

            break

        prev = sid

    style = [rng.below(1024) if rng.chance(0.3) else 0 for _ in ids]
    sx = gen.gen_stream_extras(rng)

    if rng.chance(0.1):
        # a raw / packet-like stream: short reads inside header lines
        sx['short_hdr'] = rng.randint(0, 999)

    if rng.chance(0.08):
        # the same reader object iterated again after a first pass that
        # failed, finished, or was abandoned early
        sx['reuse'] = rng.choice([0, 1, 2, 3, 5])

    return {'actors': [], 'schedule': [], 'faults': [], 'ids': ids,
            'style': style if any(style) else [],
            'noise': pipe.gen_noise(rng),
            'crlf': rng.chance(0.15),
            'dom_hook': rng.chance(0.15),
            'junk': [rng.below(len(ids)), rng.below(1000)]
            if rng.chance(0.08) else None,
            'norewind': rng.randint(1, 6) if rng.chance(0.08) else None,
            'stream': gen.gen_stream(rng)[0],
            'stream_extras': sx,
            'block_size': rng.choice([None, None, 1, 9, 97])}


def sweep_tasks(tier, master):
    depth = 6 if tier == 'quick' else 9
    tasks = []

    for first in R.NEXT['diffx']:
        tasks.append({'name': 'sweep:prefix-tree', 'first': first,
                      'depth': depth, 'exhaustive': True,
                      'label': 'every candidate id (%d) after every legal '
                               'prefix of length <= %d' % (len(CANDIDATES),
                                                            depth)})

    tasks.append({'name': 'sweep:prefix-tree', 'first': None, 'depth': 1,
                  'exhaustive': True,
                  'label': 'every candidate id in first and second position'})

    # the same tree again under header styles that never change legality
    for sname, st in (('blank-line-before-every-header', 1),
                      ('type=binary-on-every-diff', 4 | 8),
                      ('options-on-containers', 4),
                      ('copy/move-metadata', 16),
                      ('length-on-containers', 4 | 8),
                      ('content-starting-with-empty-lines', 8 | 128)):
        for first in R.NEXT['diffx']:
            tasks.append({'name': 'sweep:prefix-tree', 'first': first,
                          'depth': depth - 1, 'exhaustive': True,
                          'style_all': st,
                          'label': 'every candidate id after every legal '
                                   'prefix of length <= %d, style %s' % (
                                       depth - 1, sname)})

    return tasks


def sweep_scenarios(task):
    def rec(prefix, depth):
        for c in CANDIDATES:
            yield {'actors': [], 'schedule': [], 'faults': [],
                   'ids': prefix + [c], 'block_size': None,
                   'dom_hook': True}

        if depth > 0:
            for c in R.NEXT.get(prefix[-1] if prefix else None, ()):
                for x in rec(prefix + [c], depth - 1):
                    yield x

    def styled(gen_):
        st = task.get('style_all')

        for x in gen_:
            if st:
                x['style'] = [st] * len(x['ids'])

            yield x

    if task['first'] is None:
        for x in styled(rec([], 0)):
            yield x

        for x in styled(rec(['diffx'], 0)):
            yield x
    else:
        for x in styled(rec(['diffx', task['first']], task['depth'] - 2)):
            yield x


def stream_extras(scn, data):
    sx = scn.get('stream_extras')
    sx = dict(sx) if isinstance(sx, dict) else {}

    if isinstance(sx.get('short_hdr'), int):
        sx['short_at'] = header_short_reads(data, sx['short_hdr'])

    return sx


def execute(scn, L):
    out = pipe.Outcome()
    import re
    ids = [s for s in scn.get('ids', ())
           if isinstance(s, str) and re.match(r'\.{0,6}[a-z]+\Z', s)]

    if not ids:
        out.discarded = 'empty-sequence'
        return out

    junk = scn.get('junk')

    if not (isinstance(junk, list) and len(junk) == 2 and
            all(isinstance(x, int) for x in junk) and
            0 <= junk[0] < len(ids)):
        junk = None

    data = render(ids, crlf=bool(scn.get('crlf')), style=scn.get('style'),
                  junk=junk)
    k = first_illegal(ids)

    if junk is not None and (k is None or junk[0] <= k):
        # the junk line comes first: everything before it is yielded, then
        # a parse error
        out.probe('junk_line_between_sections')
        ids = ids[:junk[0]] + ['<junk>'] + ids[junk[0]:]
        k = junk[0]
    pipe.run_noise(scn, L, out)
    w = World(scn, L)
    sx = stream_extras(scn, data)

    if isinstance(sx.get('reuse'), int):
        out.probe('reader_object_reused')
        recs, end, exc = read_twice(w, data,
                                    block_size=scn.get('block_size'),
                                    actor='R', abandon=sx['reuse'] or None,
                                    extras=sx,
                                    abandon_how=['close', 'throw', 'drop'][
                                        sx['reuse'] % 3])

        if end == 'raise' and not isinstance(exc, L.BaseDiffXError) and \
           isinstance(exc, (RuntimeError, StopIteration)):
            # a reader that refuses to be iterated twice says so; that is
            # not a verdict on the section order
            out.discarded = 'reader-not-reusable'
            out.absorb(w)
            return out
    else:
        recs, end, exc = read_all(
                              w, data, block_size=scn.get('block_size'),
                              stream=scn.get('stream') if scn.get('stream')
                              in STREAM_KINDS else 'sim',
                              buf=64, actor='R',
                              prefix=(scn.get('stream_extras') or {}).get(
                                  'prefix', 0),
                              late_rewind=bool((scn.get('stream_extras') or
                                                {}).get('late_rewind')),
                              extras=sx)

    if sx.get('short_at'):
        out.probe('short_reads_in_headers')

    out.absorb(w)
    out.case_key = pipe.scn_digest([ids, bool(scn.get('crlf')),
                                    scn.get('style')])

    if scn.get('style'):
        out.probe('styled_headers')
    got_ids = [r.get('section') if isinstance(r, dict) else None
               for r in recs]
    info = {'ids': ids, 'first_illegal': k, 'yielded': got_ids}
    prev2 = prev = None

    for i, sid in enumerate(ids[:(k + 1) if k is not None else len(ids)]):
        out.states.add('%s>%s' % (prev, sid))
        out.states.add('%s>%s>%s' % (prev2, prev, sid))
        prev2, prev = prev, sid

    out.probe('fully_legal' if k is None else 'deviates_at_%s' % (
        'start' if k < 2 else 'depth>=2'))

    if k is None:
        if end != 'eof':
            es = exc_summary(exc, L) if exc is not None else {'type': end}
            info['exc'] = es
            out.violate('C10.legal-rejected', '%s' % (
                ids[len(recs)] if len(recs) < len(ids) else '?'), info)
        elif got_ids != ids:
            out.violate('C10.ids', 'legal-sequence', info)
        elif isinstance(scn.get('norewind'), int) and \
                0 < scn['norewind'] < len(ids):
            # iteration abandoned after j records and started again on the
            # same reader *without* rewinding: the next header cannot open a
            # file, so it is refused (where the error says it is lies
            # outside this property)
            j = scn['norewind']
            st = io.BytesIO(data)
            rd = L.DiffXReader(st)
            it = iter(rd)

            try:
                for _ in range(j):
                    next(it)

                getattr(it, 'close', lambda: None)()
                again = list(rd)
                out.violate('C10.illegal-accepted', 'restart:%s' % ids[j],
                            {'ids': ids, 'restart_at': j,
                             'yielded': [r.get('section') for r in again]})
            except L.DiffXParseError as e:
                out.probe('restart_without_rewind_refused')
            except (RuntimeError, StopIteration):
                pass
            except Exception as e:
                out.violate('C10.other-exception', 'restart:%s:%s' % (
                    ids[j], type(e).__name__),
                    {'ids': ids, 'restart_at': j,
                     'exc': exc_summary(e, L)})
        elif scn.get('dom_hook'):
            # the same legal sequence through the object-model loader with
            # the documented reader_cls hook set to a DiffXReader subclass
            # that overrides nothing: the order cannot be refused there
            # either (other refusals, e.g. of an option the object model
            # does not know, are not about the order)
            dom = type('DiffXDOMReader', (L.DiffXDOMReader,), {
                'reader_cls': type('DiffXReader', (L.DiffXReader,), {})})
            out.probe('legal_sequence_through_dom_hook')

            try:
                dom(L.DiffX).parse(io.BytesIO(data))
            except L.DiffXParseError as e:
                info['exc'] = exc_summary(e, L)
                out.violate('C10.legal-rejected', 'dom-hook:%s' % ids[-1],
                            info)
            except Exception:
                pass

            # ... nor by the other two loading entry points
            for name, load in (('from_bytes',
                                lambda: L.DiffX.from_bytes(data)),
                               ('from_stream',
                                lambda: L.DiffX.from_stream(
                                    io.BytesIO(data)))):
                try:
                    load()
                except L.DiffXParseError as e:
                    info['exc'] = exc_summary(e, L)
                    out.violate('C10.legal-rejected', '%s:%s' % (
                        name, ids[-1]), info)
                    break
                except Exception:
                    pass

        out.nontrivial = len(ids) >= 5
        return out

    out.nontrivial = len(ids) >= 3 and k >= 2
    pair = '%s>%s' % (ids[k - 1] if k else None, ids[k])

    if end == 'eof' or len(recs) > k:
        out.violate('C10.illegal-accepted', pair, info)
        return out

    if got_ids != ids[:k]:
        out.violate('C10.ids', 'prefix', info)
        return out

    if end != 'raise' or not exc_summary(exc, L)['parse_error']:
        es = exc_summary(exc, L) if exc is not None else {'type': end}
        info['exc'] = es
        out.violate('C10.other-exception', '%s:%s' % (pair, es.get('type')),
                    info)

    return out
