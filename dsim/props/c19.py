"""C19 — typed attributes validate atomically; equality is structural and
congruent.

The DOM world with bad_assign faults: for every attribute (own and
forwarded) values of right and wrong type / choice, unknown attribute names
in constructors and add_*.  Oracles: success => the stored value equals the
given one, has the declared type and is an allowed choice; failure =>
exception and I-atomic over the *whole* tree (incl. len(changes) /
len(files)).  Equality probes between pairs of live trees: a == b iff
snapshots equal; a != b is its negation; equal => to_bytes equal (when both
serialise); a twin tree built by replaying the same ops is equal, and a drawn
single-field perturbation is detected exactly when it changes the snapshot.
"""

import copy

from dsim import domgen, domworld, gen, pipe
from dsim.actors import pyval

ID = 'C19'
LEVEL = 'exploration'
CLASSES = [('assign', 5), ('equality', 5)]
TIERS = {'quick': {'chunk': 50}}
RULE = ('seeded DOM histories: class assign = a tree plus 10-40 assignments '
        'over all 28 (section kind, attribute) pairs with ~40% wrong-type / '
        'wrong-choice values and constructor / add_* calls with unknown '
        'attribute names; class equality = a tree, its twin replayed from '
        'the same ops, then 1-3 single-field perturbations (typed '
        'assignment, option dict, metadata key, structure) each followed by '
        '== / != probes; non-trivial = >= 1 rejected assignment and >= 1 '
        'accepted one (assign) or >= 1 perturbation that changed the '
        'snapshot (equality); distinct = digest of the op list')
ASSUMPTIONS = [
    'the attribute table (names, declared types, choices) is typed in from '
    'the documentation of the object model, not read from the code',
    'bool is not offered for int attributes (isinstance(True, int))',
    'a valid value being rejected is not a violation of this property (the '
    'statement allows "or raises"); only atomicity is then required',
]
STATE_MEASURE = ('distinct (section kind, attribute, value class, outcome) '
                 'tuples and (perturbed field class, == result) pairs')


FOREIGN_OUT_OF_SPEC = (
    b'#diffx: encoding=utf-8, version=1.0\n'
    b'#.preamble: length=2, line_endings=unix, mimetype=text/html\nx\n'
    b'#.change:\n#..preamble: length=2, mimetype=x\ny\n#..file:\n'
    b'#...meta: format=json, length=9\n{"k": 1}\n'
    b'#...diff: length=2, type=x\nz\n')


def gen_assign(rng):
    tn = 'T1'
    ops = domgen.gen_tree_ops(rng, tn, max_changes=2, max_files=2,
                              p_set=0.3, full=True)
    n = rng.randint(10, 40)

    if rng.chance(0.15):
        # another tree, loaded from a foreign file whose option values lie
        # outside the documented choices, then assigned valid values
        ops.append({'op': 'parse', 'tree': 'T0',
                    'hex': FOREIGN_OUT_OF_SPEC.hex()})

        for path, attr in (([], 'preamble_mimetype'),
                           ([0], 'preamble_mimetype'),
                           ([0, 0], 'diff_type'),
                           ([], 'preamble_line_endings')):
            if rng.chance(0.7):
                ops.append({'op': 'set', 'tree': 'T0', 'path': path,
                            'attr': attr,
                            'value': domgen.valid_value(
                                rng, domgen.node_kind(path), attr)})

    if rng.chance(0.15):
        # a file section copied within the tree, nested metadata of the
        # copy edited in place
        ops.append({'op': 'set', 'tree': tn, 'path': [0, 0], 'attr': 'meta',
                    'value': {'path': {'old': 'a', 'new': 'b'},
                              'stats': {'n': [1, 2]}}})
        ops.append({'op': 'clone_file', 'tree': tn, 'from': tn,
                    'path': [0, 0], 'change': rng.below(2),
                    'how': rng.choice(['deepcopy', 'pickle'])})
        ops.append({'op': 'meta_nested', 'tree': tn,
                    'path': [ops[-1]['change'], -1],
                    'prefer': rng.choice(['path', 'stats']), 'key': 'zz',
                    'value': 7})

    for _ in range(n):
        k = rng.below(20)

        if k < 14:
            path = rng.choice([[], [0], [0, 0], [1], [1, 0]])
            kind = domgen.node_kind(path)
            attr = rng.choice(sorted(domgen.ATTRS[kind]))

            if rng.chance(0.4):
                v = domgen.invalid_value(rng, kind, attr)
            else:
                v = domgen.valid_value(rng, kind, attr)

            if attr.endswith('indent') and rng.chance(0.3):
                # an int the API may or may not take: either way the
                # assignment is all-or-nothing
                v = rng.choice([-1, -4, -100])

            ops.append({'op': 'set', 'tree': tn, 'path': path, 'attr': attr,
                        'value': v})
        elif k < 15 and rng.chance(0.5):
            path = rng.choice([[], [0], [0, 0]])
            ops.append({'op': 'set', 'tree': tn, 'path': path, 'attr': 'meta',
                        'value': {'n': 1, 'flag': True, 'f': 2.0,
                                  'l': [0, 1, False]}})
            ops.append({'op': 'tweak', 'tree': tn, 'path': path,
                        'attr': 'meta', 'how': 'retype'})
        elif k < 16:
            bad = rng.choice(domgen.NON_ATTRS)
            attrs = {bad: rng.choice([1, 'x', None, [], {}])}

            if rng.chance(0.5):
                attrs['meta'] = {'k': 1}

            if rng.chance(0.5):
                # (keyword order: the valid one first)
                attrs = {k: attrs[k] for k in reversed(list(attrs))}

            ops.append({'op': 'add_change', 'tree': tn, 'attrs': attrs})
        elif k < 18:
            bad = rng.choice(domgen.NON_ATTRS)
            attrs = {bad: rng.choice([1, 'x', None, [], {}])}

            if rng.chance(0.5):
                attrs['meta'] = {'k': 1}

            if rng.chance(0.5):
                attrs = {k: attrs[k] for k in reversed(list(attrs))}

            ops.append({'op': 'add_file', 'tree': tn, 'change': 0,
                        'attrs': attrs})
        elif k < 19 and rng.chance(0.4):
            # a content section constructed directly with an option that
            # belongs to another kind of section (or to none)
            cls = rng.choice(sorted(domgen.SECTION_ATTRS))
            bad = rng.choice([a for a in ('line_endings', 'indent', 'format',
                                          'mimetype', 'type', 'version',
                                          'bogus', 'meta', 'files')
                              if a not in domgen.SECTION_ATTRS[cls]])
            attrs = {bad: {'line_endings': 'dos', 'indent': 2,
                           'format': 'json', 'mimetype': 'text/plain',
                           'type': 'text', 'version': '1.0'}.get(bad, 1)}

            if rng.chance(0.5):
                attrs = dict({'encoding': 'utf-8'}, **attrs)

            ops.append({'op': 'new_section', 'cls': cls, 'attrs': attrs})
        elif k < 19:
            a = rng.choice(['preamble', 'meta', 'encoding', 'version'])
            ops.append({'op': 'new_tree', 'tree': 'T2',
                        'attrs': {a: domgen.invalid_value(rng, 'tree', a)}})
        else:
            ops.append({'op': 'new_tree', 'tree': 'T2',
                        'attrs': {rng.choice(domgen.NON_ATTRS): 1}})

    return ops


def rename(ops, old, new):
    out = copy.deepcopy(ops)

    for op in out:
        for k in ('tree', 'a', 'b', 'from'):
            if op.get(k) == old:
                op[k] = new

    return out


def reordered(rng, ops):
    """The same ops with runs of assignments to distinct attributes of one
    node in another order, and keyword arguments in another order: the
    resulting tree is the same."""
    out = []
    run = []

    def flush():
        if len(run) > 1 and len(set(o['attr'] for o in run)) == len(run):
            k = rng.below(3)

            if k == 0:
                run.reverse()
            elif k == 1:
                rng.shuffle(run)

        out.extend(run)
        del run[:]

    for op in ops:
        if op.get('op') == 'set' and (not run or
                                      run[-1].get('path') == op.get('path')):
            run.append(op)
            continue

        flush()

        if op.get('op') == 'set':
            run.append(op)
            continue

        if isinstance(op.get('attrs'), dict) and len(op['attrs']) > 1:
            op = dict(op, attrs={k: op['attrs'][k]
                                 for k in reversed(list(op['attrs']))})

        out.append(op)

    flush()
    return out


def gen_equality(rng):
    base = domgen.gen_tree_ops(rng, 'T1', max_changes=2, max_files=2,
                               p_set=rng.choice([0.4, 0.4, 0.9]),
                               full=rng.chance(0.7))
    twin = rename(base, 'T1', 'T2')

    if rng.chance(0.5):
        twin = reordered(rng, twin)

    ops = base + twin

    if rng.chance(0.1):
        # an attribute assigned the object it already holds; attributes
        # merely read on one of the twins: neither changes anything
        path = rng.choice([[], [0], [0, 0]])
        ops.append({'op': 'tweak', 'tree': 'T2', 'path': path,
                    'attr': rng.choice(['meta', 'meta', 'preamble']
                                       if len(path) < 2 else
                                       ['meta', 'diff']), 'how': 'self'})
        ops.append({'op': 'getattrs', 'tree': 'T1', 'path': path})
        ops.append({'op': 'getattrs', 'tree': 'T1',
                    'path': rng.choice([[], [0], [0, 0], [1]])})
        ops.append({'op': 'eq', 'a': 'T1', 'b': 'T2'})
        ops.append({'op': 'ne', 'a': 'T2', 'b': 'T1'})

    if rng.chance(0.08):
        # options that "should not matter" for a binary diff still make two
        # trees different (they are written to the header)
        d = {'$bytes': '89504e470d0a1a0a'}

        for t in ('T1', 'T2'):
            ops.append({'op': 'set', 'tree': t, 'path': [0, 0],
                        'attr': 'diff', 'value': d})
            ops.append({'op': 'set', 'tree': t, 'path': [0, 0],
                        'attr': 'diff_type', 'value': 'binary'})

        ops.append({'op': 'eq', 'a': 'T1', 'b': 'T2'})
        ops.append({'op': 'set', 'tree': 'T2', 'path': [0, 0],
                    'attr': rng.choice(['diff_line_endings',
                                        'diff_encoding']),
                    'value': rng.choice(['unix', 'dos'])})
        ops.append({'op': rng.choice(['eq', 'ne']), 'a': 'T1', 'b': 'T2'})
        ops.append(rename([ops[-2]], 'T2', 'T1')[0])
        ops.append({'op': 'eq', 'a': 'T1', 'b': 'T2'})

    if rng.chance(0.04):
        # metadata with thousands of keys, filled in the opposite order in
        # the twin
        wide = {'k%05d' % i: i for i in range(rng.choice([2049, 4100]))}
        path = rng.choice([[], [0]])
        ops.append({'op': 'set', 'tree': 'T1', 'path': path, 'attr': 'meta',
                    'value': wide})
        ops.append({'op': 'set', 'tree': 'T2', 'path': path, 'attr': 'meta',
                    'value': wide})
        ops.append({'op': 'tweak', 'tree': 'T2', 'path': path,
                    'attr': 'meta', 'how': 'reverse_keys'})
        ops.append({'op': 'eq', 'a': 'T1', 'b': 'T2'})
    ops.append({'op': 'eq', 'a': 'T1', 'b': 'T2'})
    ops.append({'op': 'ne', 'a': 'T1', 'b': 'T2'})

    for _ in range(rng.randint(1, 3)):
        k = rng.below(10)
        path = rng.choice([[], [0], [0, 0], [1], [0, 1]])
        kind = domgen.node_kind(path)

        if k < 2:
            attr = rng.choice(sorted(domgen.ATTRS[kind]))
            ops.append({'op': 'set', 'tree': 'T2', 'path': path,
                        'attr': attr,
                        'value': domgen.valid_value(rng, kind, attr)})
        elif k < 4:
            # minimal perturbation of an existing content value
            attr = rng.choice(['preamble', 'meta'] if kind != 'file'
                              else ['diff', 'meta'])
            how = rng.choice(['reverse_keys', 'retype', 'list_append',
                              'list_append']) \
                if attr == 'meta' else rng.choice(
                ['append_nl', 'append_crlf', 'strip_nl', 'append_space',
                 'swapcase', 'prepend_bom', 'empty'])
            ops.append({'op': 'tweak', 'tree': 'T2', 'path': path,
                        'attr': attr, 'how': how})
        elif k < 6:
            ops.append({'op': 'meta_set', 'tree': 'T2', 'path': path,
                        'key': rng.choice(['k', 'zz']),
                        'value': gen.gen_json_value(rng, 1)})
        elif k < 7 and rng.chance(0.5):
            # drop an option that has a class-level default (or any option)
            sec, key = rng.choice([('self', 'encoding'), ('self', 'version'),
                                   ('meta', 'format'), ('meta', 'encoding'),
                                   ('preamble', 'indent'),
                                   ('diff', 'line_endings')])
            ops.append({'op': 'del_option', 'tree': 'T2',
                        'path': path if sec != 'self' or key == 'encoding'
                        else [], 'sec': sec, 'key': key})
        elif k < 8:
            sec = rng.choice(['self', 'preamble', 'meta', 'diff'])
            ops.append({'op': 'set_option', 'tree': 'T2', 'path': path,
                        'sec': sec, 'key': rng.choice(['x-custom',
                                                       'encoding']),
                        'value': rng.choice(['v', 'latin-1', 7])})
        elif k < 9 and rng.chance(0.5):
            ops.append({'op': 'shift_diff', 'tree': 'T2',
                        'change': rng.below(2), 'file': rng.below(2)})
        elif k < 9:
            ops.append({'op': 'add_change', 'tree': 'T2', 'attrs': {}})
        else:
            ops.append({'op': 'add_file', 'tree': 'T2', 'change': 0,
                        'attrs': {}})

        ops.append({'op': rng.choice(['eq', 'ne']), 'a': 'T1', 'b': 'T2'})
        ops.append({'op': rng.choice(['eq', 'ne']), 'a': 'T2', 'b': 'T1'})

        if rng.chance(0.3):
            # undo by replaying the same op on T1: equal again
            ops.append(rename([ops[-3]], 'T2', 'T1')[0])
            ops.append({'op': 'eq', 'a': 'T1', 'b': 'T2'})

    return ops


def generate(rng, tier, cls):
    ops = gen_assign(rng) if cls == 'assign' else gen_equality(rng)

    if tier == 'thorough' and rng.chance(0.5):
        # longer histories: a second batch on the same trees
        more = gen_assign(rng) if cls == 'assign' else gen_equality(rng)
        ops = ops + [o for o in more if o['op'] != 'new_tree' or
                     o.get('tree') == 'T2' and cls == 'assign']
    return {'actors': [{'id': 'A1', 'kind': 'dom', 'ops': ops}],
            'schedule': [], 'faults': [],
            'dom_values': rng.choice([None] * 8 + ['sub', 'same'])}


def vclass(v):
    return type(v).__name__


def execute(scn, L):
    out = pipe.Outcome()
    w = pipe.make_world(scn, L)
    w.run()
    out.absorb(w)
    out.case_key = pipe.scn_digest(scn.get('actors'))
    st = domworld.dom_state(w)
    nrej = nacc = nchanged = 0

    for r in st.log:
        op = r['op']
        name = op.get('op')

        if r['outcome'] == 'skip':
            continue

        if name == 'set':
            kind = domgen.node_kind(op.get('path', []))
            attr = op.get('attr')
            val = pyval(op.get('value'))
            valid = domgen.is_valid(kind, attr, val)

            if valid is None:
                continue

            out.states.add('%s|%s|%s|%s' % (kind, attr, vclass(val),
                                            r['outcome']))

            if r['outcome'] == 'ok':
                nacc += 1

                if not valid:
                    out.violate('C19.invalid-value-stored', '%s:%s:%s' % (
                        kind, attr, vclass(val)), {'op': op})
                elif not r.get('same'):
                    out.violate('C19.stored-value-differs', '%s:%s' % (
                        kind, attr), {'op': op, 'stored': r.get('stored')})
            else:
                nrej += 1
                out.probe('assignment_rejected')

                if valid:
                    out.probe('valid_value_rejected')
        elif name in ('new_tree', 'add_change', 'add_file'):
            kind = {'new_tree': 'tree', 'add_change': 'change',
                    'add_file': 'file'}[name]
            attrs = pyval(op.get('attrs', {}))
            unknown = [a for a in attrs if a not in domgen.ATTRS[kind]]
            invalid = [a for a in attrs if a in domgen.ATTRS[kind] and
                       not domgen.is_valid(kind, a, attrs[a])]

            if r['outcome'] == 'ok':
                if unknown:
                    out.violate('C19.unknown-attribute-accepted', '%s:%s' % (
                        name, unknown[0]), {'op': op})
                elif invalid:
                    out.violate('C19.invalid-value-stored', '%s:%s:ctor' % (
                        kind, invalid[0]), {'op': op})
            elif unknown or invalid:
                nrej += 1
                out.probe('ctor_attr_rejected:' + ('unknown' if unknown
                                                   else 'invalid'))
                out.states.add('%s|ctor-rejected|%s' % (
                    kind, 'unknown' if unknown else 'invalid'))
        elif name == 'new_section':
            known = domgen.SECTION_ATTRS.get(op.get('cls'), ())
            unknown = [a for a in op.get('attrs', {}) if a not in known]

            if r['outcome'] == 'ok' and unknown:
                out.violate('C19.unknown-attribute-accepted', '%s:%s' % (
                    op.get('cls'), unknown[0]), {'op': op})
            elif unknown:
                nrej += 1
                out.probe('section_ctor_attr_rejected')
        elif name == 'tweak' and r['outcome'] == 'ok':
            out.probe('tweak:' + str(op.get('how')))

            if r.get('same') is False:
                out.violate('C19.stored-value-differs', 'tweak:%s:%s' % (
                    op.get('attr'), op.get('how')),
                    {'op': op, 'stored': r.get('stored')})
        elif name in ('eq', 'ne') and r['outcome'] == 'ok':
            se = r.get('snap_equal')
            want = se if name == 'eq' else (not se)

            if r.get('value') is not want:
                out.violate('C19.equality', '%s:snap-%s' % (
                    name, 'equal' if se else 'differs'),
                    {'op': op, 'returned': r.get('value')})

            if se and r.get('bytes_equal') is False:
                # narrow signature of the recorded finding: the trees differ
                # only in bool / int / float typing of metadata values
                out.violate('C19.equal-trees-serialise-differently',
                            'bytes' if r.get('strict_equal')
                            else 'bytes:metadata-number-typing-only',
                            {'op': op})

            if not se:
                nchanged += 1

            out.probe('equality_probe:' + ('equal' if se else 'different'))

            out.states.add('%s|%s' % (name, se))
        elif name in ('eq', 'ne') and r['outcome'] == 'raise':
            out.violate('C19.equality', '%s:raised' % name,
                        {'op': op, 'exc': r.get('exc')})

    out.nontrivial = (nrej >= 1 and nacc >= 1) or nchanged >= 1
    return out
