"""C08 — reader error contract: any bytes give records or a positioned parse
error.

Inputs as faults: well-formed files (writer- or foreign-produced) damaged in
storage by 1-4 edits (byte flip / insert / delete; token-level: hostile
option values for length / indent / encoding / line_endings / format /
version; line-level: duplicate / drop / swap lines, mixed LF / CRLF header
endings, emptied content), plus fully random byte strings and DiffX-shaped
soup.  Three consumers look at the same damaged copy: the streaming reader
(stepped), DiffX.from_bytes, and DiffX.from_stream over a SimReadHandle
(close tracking; optionally an injected read error).
"""

from dsim import gen, pipe
from dsim import refmodel as R
from dsim.actors import LOAD_STREAMS, exc_summary

ID = 'C08'
LEVEL = 'exploration'
HANG_ORACLE = 'C08.no-termination'
CLASSES = [('corrupt', 10), ('random', 3), ('soup', 3), ('read_error', 2)]
TIERS = {'quick': {}}
RULE = ('seeded well-formed files damaged by 1-4 byte-, token- and '
        'line-level storage faults, random byte strings, DiffX-shaped soup, '
        'and injected read errors; each damaged copy is consumed by the '
        'streaming reader, DiffX.from_bytes and DiffX.from_stream; '
        'non-trivial = the damaged copy differs from the stored file (or is '
        'random) and is non-empty; distinct = digest of the damaged bytes + '
        'consumer configuration')
ASSUMPTIONS = [
    '"line number lies within the input" is checked as 0 <= linenum <= '
    'len(input in bytes) (an upper bound every line-counting convention '
    'satisfies)',
    '"message agrees with its attributes" is checked as: the decimal '
    'rendering of linenum+1 (and column+1 when a column is given) occurs in '
    'str(error)',
    'under an injected read error the accepted escapes are the injected '
    'OSError itself or an error of the library family',
]
STATE_MEASURE = ('distinct (fault kinds applied, outcome of the streaming '
                 'reader: eof / parse-error@function / other, outcome of the '
                 'DOM loader) tuples')

HOSTILE = {
    'length': ['abc', '-3', '0', '1.5', '99999999999999999999', '5', '1',
               '9' * 4301, '1' + '0' * 5000,
               '-0', '007', '1e3', '9223372036854775807',
               '9223372036854775808', '18446744073709551615',
               '236854775807', '68719476736', '1099511627776',
               '18446744073709551616'],
    'indent': ['abc', '-3', '0', '1.5', '99999999999999999999', '5',
               '4294967296', 'x'],
    'encoding': ['nope', '5', 'utf-99', 'utf-16', 'utf-32', 'ascii', 'idna',
                 'utf-7', 'hex', 'base64', 'rot13', 'zlib', 'unicode-escape',
                 'raw-unicode-escape', 'undefined', 'mbcs', 'punycode',
                 'utf-8-sig', 'cp037', 'bz2', 'uu', 'quopri'],
    'line_endings': ['mac', 'dos', 'unix', 'DOS', '5', '%s', '%d', '{}',
                     '{0}', '%', 'u' * 3000],
    'format': ['yaml', 'json', 'JSON', '5', '%s', '{x}', '%(a)s'],
    'version': ['2.0', '1', '1.0', 'abc', '5', '%s', '{}', '1.0%'],
    'type': ['binary', 'text', 'x', '5', '7' * 4400],
    'mimetype': ['text/html', 'x', '5'],
    # header lines longer than one read-ahead block
    'x-pad': ['y' * 100, 'y' * 250],
    # unknown options whose names end like a known one
    'x-orig-length': ['99999999', '5', '0'],
    'content-length': ['123456789'],
    'x-encoding': ['utf-16', 'nope'],
}
HOSTILE_KEYS = ['files', 'changes', 'options', 'meta', 'preamble', 'diff',
                '_level', 'section_id', 'subsections', 'content', 'add_file',
                'meta_section', 'diff_section', 'preamble_section',
                'section_name', 'default_options', 'meta_encoding',
                'preamble_indent', 'diff_type', '__class__', '__dict__',
                '__slots__', 'generate_stats', 'to_bytes', 'x-y', 'A']
SOUP = [b'#diffx: version=1.0\n', b'#diffx: encoding=utf-8, version=1.0\n',
        b'#.change:\n', b'#..file:\n', b'#...meta: length=3\n',
        b'#...meta: format=json, length=3\n', b'{}\n', b'#...diff: length=2\n',
        b'#.preamble: length=2\n', b'#.meta: length=5\n', b'[1]\n', b'"x"\n',
        b'x\n', b'\n', b'\r\n', b'#', b'.', b':', b' ', b'=', b',', b', ',
        b'length=', b'encoding=', b'indent=', b'line_endings=', b'4', b'0',
        b'-1', b'utf-16', b'\xff', b'\xfe', b'\x00', b'a', b'#..preamble: '
        b'indent=4, length=6\n', b'    x\n', b'#..meta: length=2\n',
        b'#.change: encoding=utf-16\n', b'#..file: encoding=latin-1\n',
        b'null\n', b'#...diff: encoding=utf-16, length=4\n', b'a\x00\n\x00',
        b'#.change: files=5\n', b'#..file: options=1\n',
        b'#.change: subsections=x\n', b'#..file: meta=1\n',
        b'#.change: preamble=x\n', b'#.change: meta_section=x\n']


def gen_base(rng):
    if rng.chance(0.5):
        main, ops = gen.gen_history(rng, max_changes=rng.choice([2, 2, 5]),
                                    max_files=2)
        kept, m = gen.filter_ops(main, ops)
        prod = {'id': 'P1', 'kind': 'writer', 'file': 'f1',
                'main_encoding': main, 'ops': ops}
        return prod, m.getvalue()

    spec = gen.gen_foreign(rng, max_changes=2, max_files=2)
    return ({'id': 'P1', 'kind': 'raw', 'file': 'f1', 'foreign': spec},
            R.render_foreign(spec))


def gen_fault(rng, data, nsec):
    n = max(1, len(data))
    k = rng.below(20)

    if k < 4:
        return {'kind': 'flip', 'at': rng.below(n),
                'to': rng.choice([0, 10, 13, 32, 35, 44, 46, 58, 61, 255,
                                  rng.below(256)])}
    elif k < 6:
        return {'kind': 'insert', 'at': rng.below(n + 1),
                'hex': bytes(rng.choice([10, 13, 32, 35, 44, 61, 0, 255, 65])
                             for _ in range(rng.randint(1, 3))).hex()}
    elif k < 8:
        return {'kind': 'delete', 'at': rng.below(n),
                'n': rng.randint(1, 4)}
    elif k < 9:
        # an option named after something the object model has
        return {'kind': 'set_opt', 'section': rng.below(max(1, nsec)),
                'key': rng.choice(HOSTILE_KEYS),
                'value': rng.choice(['1', 'x', 'utf-8', 'json', '0']),
                'pos': rng.below(3)}
    elif k < 15:
        # (the options the reader acts on weigh more than the ones it only
        # carries along)
        key = rng.choice(sorted(HOSTILE) + ['length'] * 4 +
                         ['indent', 'encoding', 'line_endings'])
        f = {'kind': 'set_opt', 'section': rng.below(max(1, nsec)),
             'key': key}

        if rng.chance(0.08):
            f['value'] = None
        elif rng.chance(0.08):
            f['value'] = 'x'
            f['value_hex'] = rng.choice(['c3a9', 'ff', '80', 'e697a5'])
        else:
            f['value'] = rng.choice(HOSTILE[key])

        if rng.chance(0.3):
            f['pos'] = rng.below(4)

        return f
    elif k < 16:
        return {'kind': 'empty_content', 'section': rng.below(max(1, nsec))}
    else:
        nl = data.count(b'\n')
        return {'kind': rng.choice(['dup_line', 'drop_line', 'swap_lines',
                                    'crlf_line', 'lf_line']),
                'line': rng.below(max(1, nl))}


def consumers(rng, read_error=None):
    r = {'id': 'R1', 'kind': 'reader', 'file': 'f1'}

    if rng.chance(0.4):
        r['block_size'] = rng.choice([1, 3, 16, 97, 100000])

    r['stream'], r['buf'] = gen.gen_stream(rng)

    if rng.chance(0.1):
        r['shadow'] = rng.below(50)

    if rng.chance(0.12) and read_error is None:
        r['again'] = True

    cs = [r, {'id': 'D1', 'kind': 'dom_load', 'file': 'f1',
              'via': 'from_bytes'},
          {'id': 'D2', 'kind': 'dom_load', 'file': 'f1',
           'via': 'hook' if rng.chance(0.12) else 'from_stream',
           'stream': rng.choice(LOAD_STREAMS)}]
    return cs


def generate(rng, tier, cls):
    faults = []

    if cls in ('corrupt', 'read_error'):
        prod, data = gen_base(rng)

        try:
            nsec = len(R.ref_parse(data))
        except R.RefReject:
            nsec = 1

        if cls == 'corrupt' or rng.chance(0.5):
            for _ in range(rng.weighted([(5, 1), (3, 2), (1, 3), (1, 4)])):
                faults.append(gen_fault(rng, data, nsec))
    elif cls == 'random':
        n = rng.choice([0, 1, 2, 5, 20, 100, 300])
        data = bytes(rng.below(256) for _ in range(n))

        if rng.chance(0.5):
            data = rng.choice([b'#diffx: version=1.0\n', b'#diffx:',
                               b'#diffx: encoding=utf-8, version=1.0\n'
                               b'#.preamble: length=20\n']) + data
        elif rng.chance(0.4):
            # magic numbers of formats a loader might sniff for
            data = rng.choice([b'\x1f\x8b', b'\x1f\x8b\x08\x00', b'BZh9',
                               b'\xfd7zXZ\x00', b'PK\x03\x04', b'\xef\xbb\xbf',
                               b'\xff\xfe', b'\xfe\xff', b'%PDF-', b'\x28\xb5\x2f\xfd',
                               b'diff --git a/x b/x\n', b'--- a\n+++ b\n']) + data

        prod = {'id': 'P1', 'kind': 'raw', 'file': 'f1', 'hex': data.hex()}

        if rng.chance(0.05):
            # metadata in a codec whose line feed is not 0x0A (EBCDIC,
            # UTF-7), several lines long in its own terms, invalid at its end
            enc = rng.choice(['cp037', 'cp500', 'utf-7'])
            body = ('{\n' + '\n' * rng.randint(3, 30) + '"a": }\n').encode(enc)

            if enc == 'utf-7':
                # line feeds written in UTF-7's base64 form: text lines that
                # are not lines of the byte stream
                body = b'{' + b'+AAoACgAK-' * rng.randint(2, 12) + \
                    b'"a": }\n'
            data = b'#diffx: encoding=utf-8, version=1.0\n' + \
                b'#.meta: encoding=' + enc.encode() + \
                b', format=json, length=%d\n' % len(body) + body
            prod = {'id': 'P1', 'kind': 'raw', 'file': 'f1',
                    'hex': data.hex()}

        if rng.chance(0.04):
            body = rng.choice([b'{"a": null, "a": null}\n',
                               b'{"a": {}, "a": {"b": 1}}\n',
                               b'{"k": "s", "k": 1, "k": [1]}\n',
                               b'{"a": [{"x": {}, "x": null}]}\n'])
            data = b'#diffx: encoding=utf-8, version=1.0\n' + \
                b'#.meta: format=json, length=%d\n' % len(body) + body + \
                b'#.change:\n#..file:\n#...meta: format=json, length=%d\n' \
                % len(body) + body
            prod = {'id': 'P1', 'kind': 'raw', 'file': 'f1',
                    'hex': data.hex()}

        if rng.chance(0.06):
            # metadata nested far deeper than any parser recurses
            prod = {'id': 'P1', 'kind': 'raw', 'file': 'f1',
                    'nested': {'depth': rng.choice([50, 400, 990, 1100, 5000,
                                                    100000]),
                               'kind': rng.choice(['list', 'dict',
                                                   'unclosed']),
                               'where': rng.choice(['main', 'file'])}}
    else:
        data = b''.join(rng.choice(SOUP)
                        for _ in range(rng.randint(1, 14)))

        if rng.chance(0.7):
            data = b'#diffx: encoding=utf-8, version=1.0\n' + data

        prod = {'id': 'P1', 'kind': 'raw', 'file': 'f1', 'hex': data.hex()}

    cs = consumers(rng)

    if cls == 'read_error':
        faults.append({'kind': rng.choice(['read_error', 'read_error',
                                           'seek_error', 'nonseekable']),
                       'reader': 'D2', 'call': rng.below(12)})

    sched = []

    if rng.chance(0.3):
        sched = ['P1'] * 60 + ['R1', 'D1', 'R1', 'D2'] + ['R1'] * 40
        rng.shuffle(sched)

    return {'actors': [prod] + cs, 'schedule': sched, 'faults': faults,
            'noise': pipe.gen_noise(rng, 0.15)}


def check_parse_error(out, tag, info, data):
    ln = info.get('linenum')
    col = info.get('column')
    msg = info.get('msg', '')

    # "within the input": no more lines than the input has line feeds - of
    # ASCII-compatible text (0x0A) or of EBCDIC text (0x25), the two forms a
    # line feed takes in the byte stream for the stateless codecs (the
    # reader itself counts the lines of a section by that section's encoded
    # newline)
    if not isinstance(ln, int) or isinstance(ln, bool) or \
       not (0 <= ln <= data.count(b'\n') + data.count(b'\x25') + 1):
        out.violate('C08.linenum-range', tag, {'exc': info,
                                              'len': len(data)})
        return

    if col is not None and (not isinstance(col, int) or
                            isinstance(col, bool) or col < 0):
        out.violate('C08.column-range', tag, {'exc': info})
        return

    if str(ln + 1) not in msg or \
       (col is not None and str(col + 1) not in msg):
        out.violate('C08.message-disagrees', tag, {'exc': info})


def execute(scn, L):
    out = pipe.Outcome()
    actors = []

    for a in scn.get('actors', ()):
        if a.get('kind') == 'writer':
            a = pipe.effective_writer_spec(a)

            if a is None:
                out.discarded = 'outside-domain'
                return out

        actors.append(a)

    pipe.run_noise(scn, L, out)
    w = pipe.make_world(scn, L, actors)
    w.run()
    out.absorb(w)
    kinds = '+'.join(sorted(set(f['kind'] for f in scn.get('faults', ()))))
    fclass = kinds or scn.get('class', 'none')
    r_state = d_state = '-'
    seen = None

    for a in w.actors.values():
        if a.kind == 'reader' and a.it is not None:
            seen = a.data

            if a.end in ('cap', 'hang'):
                out.violate('C08.no-termination', 'reader:' + a.end,
                            {'len': len(a.data)})
                r_state = 'hang'
            elif a.end == 'raise':
                ei = a.exc_info

                if not ei['parse_error']:
                    out.violate('C08.reader-other-exception', '%s:%s' % (
                        ei['type'], ei['func']),
                        {'exc': ei, 'fault_class': fclass})
                    r_state = 'other'
                else:
                    check_parse_error(out, 'reader', ei, a.data)
                    r_state = 'pe@%s' % ei['func']
            else:
                r_state = 'eof'

            if a.spec.get('again') and a.end in ('eof', 'raise') and \
               not any(f['kind'] in ('read_error', 'seek_error',
                                     'nonseekable')
                       for f in scn.get('faults', ())):
                # the same reader object, rewound and iterated again after
                # the pass that has just ended (failed ones included): the
                # same answer, and never another kind of exception
                from dsim.actors import read_twice
                from dsim.world import World
                w2 = World(scn, L)
                recs2, end2, exc2 = read_twice(
                    w2, a.data, block_size=a.spec.get('block_size'),
                    actor='R-again', stream=a.spec.get('stream', 'sim'),
                    buf=a.spec.get('buf'))
                out.absorb(w2)
                out.probe('reader_iterated_again_after_' + a.end)

                if end2 in ('cap', 'hang'):
                    out.violate('C08.no-termination', 'reader-again:' + end2,
                                {'len': len(a.data)})
                elif end2 == 'raise' and \
                        not exc_summary(exc2, L)['parse_error']:
                    ei2 = exc_summary(exc2, L)
                    out.violate('C08.reader-other-exception',
                                '%s:%s:second-pass' % (ei2['type'],
                                                       ei2['func']),
                                {'exc': ei2, 'fault_class': fclass})
                elif end2 != a.end or len(recs2) != len(a.records):
                    out.violate('C08.second-pass-differs', '%s/%d-vs-%s/%d'
                                % (a.end, len(a.records), end2, len(recs2)),
                                {'fault_class': fclass})

            for rec in a.records:
                if not isinstance(rec, dict):
                    out.violate('C08.record-type', 'reader', None)
        elif a.kind == 'dom_load' and a.end is not None:
            via = a.spec.get('via')
            injected = any(f['kind'] in ('read_error', 'seek_error',
                                         'nonseekable') and
                           f.get('reader') == a.id
                           for f in scn.get('faults', ()))

            if a.end in ('cap', 'hang'):
                out.violate('C08.no-termination', 'dom:' + a.end, None)
            elif a.end == 'raise':
                ei = a.exc_info
                ok = ei['family'] or (injected and ei['type'] in (
                    'OSError', 'UnsupportedOperation'))

                if not ok:
                    out.violate('C08.dom-other-exception', '%s:%s' % (
                        ei['type'], ei['func']),
                        {'exc': ei, 'via': via, 'fault_class': fclass})
                    d_state = 'other'
                else:
                    d_state = 'err'

                    if ei['parse_error'] and not (
                            via == 'hook' and ei['msg'].endswith(
                                'not a DiffX file')):
                        check_parse_error(out, 'dom', ei, a.data)
            else:
                d_state = 'ok'

            if via in ('from_stream', 'hook') and a.handle is not None:
                if not a.handle.closed:
                    out.violate('C08.stream-not-closed', '%s:%s' % (
                        a.end, (a.exc_info or {}).get('type')),
                        {'injected_read_error': injected})
                else:
                    out.probe('closed_after_' + ('failure' if a.end != 'ok'
                                                 else 'success'))

                if injected and (w.faults.get('read_error') or
                                 w.faults.get('nonseekable_stream') or
                                 w.faults.get('seek_error')):
                    out.probe('io_error_fired')

    # the two loading entry points are one loader: given the same bytes
    # (and no injected I/O fault) they agree - both fail with the same
    # kind of error, or both give the same tree
    loads = [a for a in w.actors.values() if a.kind == 'dom_load' and
             a.end in ('ok', 'raise') and a.data is not None]
    io_fault = any(f['kind'] in ('read_error', 'seek_error', 'nonseekable')
                   for f in scn.get('faults', ()))

    if len(loads) == 2 and not io_fault and loads[0].data == loads[1].data \
       and {loads[0].spec.get('via'), loads[1].spec.get('via')} == \
       {'from_bytes', 'from_stream'}:
        from dsim import domworld
        a, b = loads
        out.probe('both_loaders_compared')
        # a stream that sets the whole buffer aside before reading (a
        # buffered file) cannot serve a declared length of many terabytes:
        # the reader says "too large", where a stream that just hands over
        # what it has lets the length through.  Both are answers to a
        # damaged file; the two loaders were not given the same stream.
        unallocatable = any(
            x.spec.get('stream') and x.end == 'raise' and
            x.exc_info['parse_error'] and
            x.exc_info['msg'].endswith('is too large') for x in loads)

        if unallocatable:
            out.probe('length_not_allocatable_on_this_stream')
        elif a.end != b.end:
            out.violate('C08.loaders-disagree', '%s-vs-%s' % (a.end, b.end),
                        {'from_bytes' if a.spec.get('via') == 'from_bytes'
                         else 'from_stream': a.exc_info,
                         'other': b.exc_info})
        elif a.end == 'raise' and a.exc_info['type'] != b.exc_info['type']:
            out.violate('C08.loaders-disagree', 'error-type',
                        {'a': a.exc_info, 'b': b.exc_info})
        elif a.end == 'ok' and domworld.snap_tree(a.tree) != \
                domworld.snap_tree(b.tree):
            out.violate('C08.loaders-disagree', 'tree', None)

    if seen is None:
        out.discarded = 'no-consumer-ran'
        return out

    out.states.add('%s|%s|%s' % (fclass, r_state, d_state))
    out.case_key = pipe.scn_digest([seen.hex(),
                                    [a.get('block_size') for a in actors]])
    stored = w.visible('f1')
    out.nontrivial = bool(seen) and (seen != stored or
                                     scn.get('class') in ('random', 'soup'))
    return out
