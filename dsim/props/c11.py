"""C11 — header lines are accepted iff they match the specification header
grammar.

header_damage faults: one container header ("#.change:" / "#..file:") of a
well-formed file - a header whose options carry no semantics, so acceptance
is a question of grammar alone - gets an option string assembled from a
representative alphabet (letters, digits, "_ - . / , = : # +", space, tab,
bytes >= 0x80), biased to be one edit away from valid.  Oracle: accepted iff
the whole line matches the reference grammar; if accepted, the options are
reported verbatim with integers converted; if not, DiffXParseError (never
acceptance, never another exception).
"""

from dsim import gen, pipe
from dsim import refmodel as R
from dsim.actors import (read_all, read_twice, exc_summary,
                         header_short_reads)
from dsim.actors import STREAM_KINDS
from dsim.world import World

ID = 'C11'
LEVEL = 'exploration'
CLASSES = [('header_damage', 1)]
TIERS = {'quick': {}}
ALPHABET = [b'a', b'B', b'z', b'0', b'9', b'_', b'-', b'.', b'/', b',',
            b'=', b':', b'#', b'+', b' ', b'\t', b'\xc3\xa9', b'\xff',
            b', ', b'k=v', b'1', b'\r', b'1.0', b'utf-8',
            b'\xc5\xbf', b'\xe2\x84\xaa', b'\xc4\xb1', b'\xc4\xb0',
            b'\xef\xbc\x91', b'\xc2\xb2'] + \
    [bytes([c]) for c in b'!"$%&\'()*;<>?@[\\]^`{|}~\x00\x7f\x0b\x0c']
SWEEP_ALPHABET = [b'a', b'Z', b'0', b'_', b'-', b'.', b'/', b',', b'=', b':',
                  b'#', b'+', b' ', b'\t', b'\xe9', b'9']
VALID_PIECES = [b'a=b', b'k=1', b'x-y=z_w', b'A0=-5', b'q=/p/q.r', b'k_=.',
                b'key=007', b'n=-', b'm=a/b', b'Z9_=9Z', b'a=1.5',
                b'big=1234567890123456789', b'neg=-999999999999999999',
                b'u64=18446744073709551615', b'my-option=value',
                b'pad=000000000000000000007',
                # options that mean something on other kinds of section:
                # on a container they are options like any other
                b'length=-1', b'length=12', b'length=n/a', b'indent=x',
                b'line_endings=mac', b'format=yaml', b'type=x',
                b'version=9', b'mimetype=text/html']
RULE = ('seeded option strings (length up to ~12 symbols over a 21-symbol '
        'alphabet, biased to one edit away from a valid option list) placed '
        'on a change/file header of a well-formed file, in 4 header '
        'contexts; sweep tasks: EVERY option string up to length 3 (quick) / '
        '4 (thorough) over a 16-symbol alphabet, with and without the '
        'leading space; non-trivial = the string is non-empty; distinct = '
        '(context, option string)')
ASSUMPTIONS = [
    'the header grammar is the one the statement spells out (spec "9-9" '
    'read as "0-9", as the spec\'s own regex two lines below says)',
    'option *values* are compared only when keys are unique and no value is '
    'in the int() corner (1_0); acceptance is compared always',
]
STATE_MEASURE = ('distinct (header context, verdict, first offending symbol '
                 'class) tuples')

CONTEXTS = ['change', 'file', 'change2', 'main', 'misplaced']
LINE_OF = {'change': 1, 'file': 2, 'change2': 5, 'misplaced': 1}


def gen_optstr(rng):
    k = rng.below(10)

    if k < 3:
        # valid
        n = rng.randint(1, 3)
        s = b' ' + b', '.join(rng.choice(VALID_PIECES) for _ in range(n))
    elif k < 8:
        # one edit away from valid
        n = rng.randint(1, 3)
        s = bytearray(b' ' + b', '.join(rng.choice(VALID_PIECES)
                                        for _ in range(n)))
        e = rng.below(3)
        pos = rng.below(len(s) + 1)
        sym = rng.choice(ALPHABET)

        if e == 0:
            s[pos:pos] = sym
        elif e == 1 and s:
            pos = min(pos, len(s) - 1)
            s[pos:pos + 1] = sym
        elif s:
            pos = min(pos, len(s) - 1)
            del s[pos:pos + 1]

        s = bytes(s)
    else:
        s = b''.join(rng.choice(ALPHABET)
                     for _ in range(rng.randint(0, 10)))

        if rng.chance(0.6):
            s = b' ' + s

    k = rng.below(20)

    if k == 0:
        # a key that repeats an earlier *value* (of this header or of the
        # main header): legal as a value, illegal as a key
        v = rng.choice([b'1', b'1.0', b'007', b'-5', b'/p/q.r', b'.'])
        s = b' a=' + v + b', ' + v + b'=b'
    elif k == 1:
        s = b' ' + rng.choice([b'1.0', b'utf-8'[:0] + b'1.0', b'8']) + b'=x'
    elif k in (2, 3):
        # long (valid) option lists: header lengths around the read-ahead
        # block and its multiples
        n = rng.choice([70, 80, 83, 84, 85, 86, 87, 90, 170, 180, 181, 182,
                        183, 190, 280, 8200, 66000])
        s = b' pad=' + b'x' * n + (b', k=v' if rng.chance(0.5) else b'')
    elif k == 4 and s:
        s = s + b'\r'            # a stray CR at the end of the line
    elif k == 6 and rng.chance(0.5):
        # more than one '=' in what stands between two ", "
        s = rng.choice([b' a=b=c=d', b' a=1=b=2=c=3', b' k=v=w', b' a==b',
                        b' a=b, c=d=e=f', b' x=1, y=2=z=3', b' a=b=c'])
    elif k == 5 and rng.chance(0.6):
        # long *malformed* lines (the refusal has to cope with them too):
        # no blank after the colon, a symbol outside the grammar at the
        # very end, no '=' at all, one long key
        n = rng.choice([90, 150, 161, 200, 400, 9000])
        s = rng.choice([b'pad=' + b'x' * n, b' pad=' + b'x' * n + b'+',
                        b' ' + b'x' * n, b' ' + b'k' * n + b'=v, =',
                        b' pad=' + b'%' * n, b'=' * n])

    if rng.chance(0.03):
        s = b''                 # the bare header
    elif rng.chance(0.04):
        # a key that occurs twice, one occurrence outside the grammar
        bad = rng.choice([b'+', b'b=c', b'\xff', b'', b' x', b'a b', b'#'])
        good = rng.choice([b'1', b'v', b'/p'])
        k = rng.choice([b'a', b'key', b'x-y'])
        pair = [k + b'=' + bad, k + b'=' + good]

        if rng.chance(0.3):
            pair.reverse()

        s = b' ' + b', '.join(pair[:1] + ([b'z=9'] if rng.chance(0.3) else [])
                              + pair[1:])

    return s


def build(ctx, optstr, crlf=False, own_lf=False, blanks=0, lead=0, ws=b''):
    data, idx = _build(ctx, optstr, crlf, own_lf, ws)

    if blanks:
        # a run of blank lines in front of the header in question (blank
        # lines between sections carry no meaning)
        nl = b'\r\n' if crlf else b'\n'
        tgt = LINE_OF.get(ctx)
        lines = data.split(b'\n')

        if tgt is not None and tgt < len(lines):
            lines[tgt:tgt] = [nl[:-1]] * int(blanks)
            data = b'\n'.join(lines)

    if lead:
        # a blank line before the main header, in the other newline style
        # than the headers' (the file's style is that of its first header)
        data = (b'\n' if crlf else b'\r\n') * int(lead) + data

    return data, idx


def _build(ctx, optstr, crlf=False, own_lf=False, ws=b''):
    """(file bytes, index of the damaged section).  own_lf: in a CRLF file
    the damaged header itself ends in a bare LF (the file's newline style is
    fixed by its first header, so that line is not a header line)."""
    data, idx = build_lf(ctx, optstr, ws)

    if crlf:
        # every header line ends in CRLF; content keeps its LF
        out = []
        target = LINE_OF.get(ctx)

        for n, line in enumerate(data.split(b'\n')[:-1]):
            if own_lf and n == target:
                out.append(line + b'\n')
            else:
                out.append(line + (b'\r\n' if line.startswith(b'#') or
                                   n == target else b'\n'))

        data = b''.join(out)

    return data, idx


def build_lf(ctx, optstr, ws=b''):
    """ws: whitespace put in front of the header in question (such a line
    is not a header line)."""
    H = b'#diffx: encoding=utf-8, version=1.0\n'
    M = b'#...meta: format=json, length=9\n{"k": 1}\n'

    if ctx == 'main':
        return (ws + b'#diffx:' + optstr + b'\n#.change:\n#..file:\n' + M, 0)
    elif ctx == 'change':
        return (H + ws + b'#.change:' + optstr + b'\n#..file:\n' + M, 1)
    elif ctx == 'file':
        return (H + b'#.change:\n' + ws + b'#..file:' + optstr + b'\n' + M, 2)
    elif ctx == 'misplaced':
        # a file header where only a change (or a main preamble / meta) may
        # stand: refused whatever its options look like
        return (H + ws + b'#..file:' + optstr + b'\n' + M, 1)
    else:
        return (H + b'#.change:\n#..file:\n' + M + ws + b'#.change:' +
                optstr + b'\n#..file:\n' + M, 4)


def generate(rng, tier, cls):
    return {'actors': [], 'schedule': [], 'faults': [],
            'context': rng.choice(CONTEXTS[:3]) if rng.chance(0.92)
            else 'misplaced',
            'opts_hex': gen_optstr(rng).hex(),
            'crlf': rng.chance(0.25),
            'own_lf': rng.chance(0.1),
            'stream': gen.gen_stream(rng)[0],
            'short_hdr': rng.randint(0, 999) if rng.chance(0.12) else None,
            'shadow': rng.below(50) if rng.chance(0.08) else None,
            'twice': rng.chance(0.12),
            'probe': rng.chance(0.06),
            'blanks': rng.choice([0] * 20 + [1, 3, 200, 1200, 5000]),
            'lead': rng.choice([0] * 12 + [1, 2]),
            'mutate': rng.randint(1, 5) if rng.chance(0.08) else None,
            'hdr_ws': rng.choice([None] * 15 + ['20', '09', '2020', '0b',
                                                'efbbbf', 'fffe']),
            'blanks2': rng.randint(80, 300),
            'block_size': rng.choice([None, None, 1, 5, 97])}


def sweep_tasks(tier, master):
    maxlen = 3 if tier == 'quick' else 4
    tasks = []

    for ctx in (CONTEXTS[:3] if tier == 'thorough' else ['change']):
        for first in range(len(SWEEP_ALPHABET)):
            tasks.append({'name': 'sweep:option-strings', 'context': ctx,
                          'first': first, 'maxlen': maxlen,
                          'exhaustive': True,
                          'label': 'every option string up to length %d over '
                                   'a 16-symbol alphabet, with and without '
                                   'the leading space, context(s) %s' % (
                                       maxlen, 'change/file/2nd change'
                                       if tier == 'thorough' else 'change')})

    return tasks


def sweep_scenarios(task):
    A = SWEEP_ALPHABET
    ctx = task['context']

    def strings(prefix, n):
        yield prefix

        if n > 0:
            for a in A:
                for x in strings(prefix + a, n - 1):
                    yield x

    first = A[task['first']]

    if task['first'] == 0:
        yield {'actors': [], 'schedule': [], 'faults': [], 'context': ctx,
               'opts_hex': '', 'block_size': None}
        yield {'actors': [], 'schedule': [], 'faults': [], 'context': ctx,
               'opts_hex': '20', 'block_size': None}

    for s in strings(first, task['maxlen'] - 1):
        for lead in (b'', b' '):
            yield {'actors': [], 'schedule': [], 'faults': [],
                   'context': ctx, 'opts_hex': (lead + s).hex(),
                   'block_size': None}


def execute(scn, L):
    out = pipe.Outcome()

    try:
        optstr = bytes.fromhex(scn.get('opts_hex', ''))
    except ValueError:
        out.discarded = 'bad-hex'
        return out

    ctx = scn.get('context', 'change')

    if ctx not in CONTEXTS or b'\n' in optstr:
        out.discarded = 'outside-domain'
        return out

    if ctx == 'main':
        # the main header's options carry semantics (version); only used
        # when the option string keeps version=1.0 meaningful
        out.discarded = 'main-context-unused'
        return out

    crlf = bool(scn.get('crlf'))
    own_lf = crlf and bool(scn.get('own_lf'))
    blanks = scn.get('blanks') if isinstance(scn.get('blanks'), int) and \
        0 <= scn.get('blanks') <= 6000 else 0

    if scn.get('hdr_ws') and not blanks and \
       isinstance(scn.get('blanks2'), int) and 0 < scn['blanks2'] <= 6000:
        # whitespace in front of the header after a run of blank lines of
        # drawn length (any alignment with the read-ahead blocks)
        blanks = scn['blanks2']
    ws = b''

    if scn.get('hdr_ws') in ('20', '09', '2020', '0b', 'efbbbf', 'fffe'):
        ws = bytes.fromhex(scn['hdr_ws'])

    data, idx = build(ctx, optstr, crlf, own_lf, blanks,
                      scn.get('lead') if scn.get('lead') in (1, 2) else 0,
                      ws)
    line = build_lf(ctx, optstr, ws)[0].split(b'\n')[
        LINE_OF[ctx]]
    # in a CRLF file the line the grammar sees is the text before the CRLF
    if ctx == 'misplaced':
        parsed = None
    elif own_lf and line.endswith(b'\r'):
        # "...\r" + LF is a CRLF-terminated line after all
        parsed = R.parse_header_line(line[:-1])
    else:
        parsed = None if own_lf else R.parse_header_line(line)
    w = World(scn, L)
    recs, end, exc = read_all(w, data, block_size=scn.get('block_size'),
                              stream=scn.get('stream') if scn.get('stream')
                              in STREAM_KINDS else 'sim',
                              buf=64, actor='R',
                              extras=dict(
                                  {'short_at': header_short_reads(
                                      data, scn['short_hdr'])}
                                  if isinstance(scn.get('short_hdr'), int)
                                  else {}, shadow=scn.get('shadow'),
                                  mutate=scn.get('mutate'),
                                  probe_iter=scn.get('probe')))
    out.absorb(w)
    out.case_key = pipe.scn_digest([ctx, optstr.hex(), crlf, own_lf])
    out.nontrivial = bool(optstr)
    info = {'line': line, 'context': ctx}

    def symclass():
        for ch in optstr:
            c = bytes([ch])

            if not (c.isalnum() or c in b' ,=_-./'):
                return 'x%02x' % ch if ch >= 0x80 else c.decode('latin-1')

        return 'ok'

    out.probe('grammar_rejects' if parsed is None else 'grammar_accepts')

    if crlf:
        out.probe('crlf_file')

    if len(line) >= 90:
        out.probe('long_header')

    if parsed is None:
        out.states.add('%s|reject|%s' % (ctx, symclass()))

        # the same line through the object-model loader (same reader,
        # possibly other parameters): it cannot succeed either
        try:
            L.DiffX.from_bytes(data)
            out.violate('C11.invalid-accepted', ctx + ':from_bytes', info)
        except Exception:
            pass

        if len(recs) > idx or end == 'eof':
            info['options'] = recs[idx].get('options') \
                if len(recs) > idx and isinstance(recs[idx], dict) else None
            out.violate('C11.invalid-accepted', ctx, info)
        elif end != 'raise' or not exc_summary(exc, L)['parse_error']:
            es = exc_summary(exc, L) if exc is not None else {'type': end}
            info['exc'] = es
            out.violate('C11.other-exception', '%s:%s' % (
                es.get('type'), es.get('func')), info)
        elif len(recs) != idx:
            info['yielded'] = len(recs)
            out.violate('C11.wrong-line-rejected', ctx, info)
        elif scn.get('twice'):
            # the reader object that has just refused the line, rewound and
            # iterated again (for ... in reader): the line is refused again
            w2 = World(scn, L)
            recs2, end2, exc2 = read_twice(w2, data,
                                           block_size=scn.get('block_size'),
                                           actor='R2')
            out.absorb(w2)
            out.probe('refusing_reader_iterated_again')

            if end2 == 'eof' or len(recs2) > idx:
                out.violate('C11.invalid-accepted', ctx + ':second-pass',
                            dict(info, yielded=len(recs2), end=end2))
            elif end2 != 'raise' or not exc_summary(exc2, L)['parse_error']:
                es = exc_summary(exc2, L) if exc2 is not None \
                    else {'type': end2}
                out.violate('C11.other-exception', '%s:%s:second-pass' % (
                    es.get('type'), es.get('func')), dict(info, exc=es))
            elif len(recs2) != idx:
                out.violate('C11.wrong-line-rejected', ctx + ':second-pass',
                            dict(info, yielded=len(recs2)))

        return out

    out.states.add('%s|accept|%d' % (ctx, len(parsed[2])))

    if end != 'eof' or len(recs) <= idx:
        es = exc_summary(exc, L) if exc is not None else {'type': end}
        info['exc'] = es
        out.violate('C11.valid-rejected', '%s:%s' % (ctx, es.get('type')),
                    info)
        return out

    # options verbatim, integers converted
    pairs = [p.split(b'=', 1) for p in optstr[1:].split(b', ')] \
        if optstr and parsed[2] else []
    keys = [p[0] for p in pairs]
    vals = [p[1].decode('ascii').rstrip('\r') for p in pairs]

    if len(set(keys)) == len(keys) and \
       not any(gen.int_corner(v) for v in vals) and \
       b'encoding' not in keys:
        d = pipe.cmp_options(recs[idx].get('options'), parsed[2])

        if d is not None:
            info.update({'got': recs[idx].get('options'),
                         'want': parsed[2]})
            out.violate('C11.options', '%s:%s' % (ctx, d), info)

    return out
