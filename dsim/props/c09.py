"""C09 — the writer enforces section order; rejected calls are atomic; output
is append-only.

A writer actor is driven by arbitrary call sequences over {new_change,
new_file, write_preamble, write_meta, write_diff} with bad_call faults mixed
in.  Bad calls fall in two classes so the oracle never demands a rejection
the API does not promise:
  must-reject  out of order; content of the wrong type; empty content; a
               value outside the documented choices of line_endings /
               mimetype / diff_type / meta_format / version; text the
               effective codec cannot encode; unknown codec on a content call
  may-reject   values the API does not validate (unknown / empty / non-str /
               non-grammatical / non-ASCII codec name on a container call,
               odd indent values, NaN in metadata): if the call raises it must
               be atomic like any rejected call; if it returns it counts as
               accepted and must have appended.
Oracles: (1) a call with valid arguments is accepted iff legal; (2) a call
predicted rejected raises; (3) during a call that raised the write handle
received zero write events; (4) twin run: re-executing only the accepted
calls on a fresh writer yields the same bytes and the same decisions; (5)
accepted calls only append, each >= 1 byte; under write_error faults the
stored bytes are a prefix of the fault-free twin's bytes.
"""

import copy

from dsim import gen, pipe
from dsim import refmodel as R

ID = 'C09'
LEVEL = 'exploration'
CLASSES = [('calls', 8), ('write_error', 2)]
TIERS = {'quick': {}}
RULE = ('seeded call sequences (length up to 40) over the five writer calls, '
        '~15% out of order, ~20% with an invalid-argument variant (38 '
        'variants), optional injected write errors; sweep tasks: EVERY call '
        'sequence up to length 6 (quick) / 8 (thorough) with valid '
        'arguments; non-trivial = >= 3 calls of which >= 1 rejected and >= 1 '
        'accepted after a rejection; distinct = digest of the call list')
ASSUMPTIONS = [
    'a rejected call may raise any exception type (the statement only says '
    '"raises"); which family it belongs to is not part of this property',
    'may-reject calls (values the API does not validate) are accepted either '
    'way; after one is accepted on a container, sections inheriting that '
    'encoding are may-reject too',
]
STATE_MEASURE = ('distinct (previous section, call, prediction, argument '
                 'variant) tuples')

ACCEPT, REJECT, MAY = 'accept', 'reject', 'may'
UNKNOWN = object()

CALLS = ['new_change', 'new_file', 'write_preamble', 'write_meta',
         'write_diff']

# (variant name, op patch, class)
CONTENT_VARIANTS = {
    'write_preamble': [
        ('text-bytes', {'text': {'$bytes': '6162'}}, REJECT),
        ('text-none', {'text': None}, REJECT),
        ('text-int', {'text': 5}, REJECT),
        ('text-list', {'text': ['a']}, REJECT),
        ('text-empty', {'text': ''}, REJECT),
        ('le-mac', {'line_endings': 'mac'}, REJECT),
        # values that upset the code building the error message
        ('le-percent', {'line_endings': '%s %d'}, REJECT),
        ('le-braces', {'line_endings': '{0} {x}'}, REJECT),
        ('le-long', {'line_endings': 'u' * 5000}, REJECT),
        ('mimetype-percent', {'mimetype': '100%'}, REJECT),
        ('mimetype-newline', {'mimetype': 'text/plain\n'}, REJECT),
        ('mimetype-tuple', {'mimetype': {'$tuple': ['text/plain']}}, MAY),
        ('le-int', {'line_endings': 5}, REJECT),
        ('le-upper', {'line_endings': 'DOS'}, REJECT),
        ('le-title', {'line_endings': 'Unix'}, REJECT),
        ('mimetype-case', {'mimetype': 'Text/Plain'}, REJECT),
        ('mimetype-upper', {'mimetype': 'TEXT/MARKDOWN'}, REJECT),
        ('le-substr', {'line_endings': 'nix'}, REJECT),
        ('le-empty', {'line_endings': ''}, REJECT),
        ('mimetype-substr', {'mimetype': 'text'}, REJECT),
        ('mimetype-empty', {'mimetype': ''}, REJECT),
        ('mimetype-html', {'mimetype': 'text/html'}, REJECT),
        ('mimetype-legacy', {'mimetype': 'text/x-markdown'}, REJECT),
        ('mimetype-zero', {'mimetype': 0}, REJECT),
        ('mimetype-false', {'mimetype': False}, REJECT),
        ('mimetype-int', {'mimetype': 5}, REJECT),
        ('unencodable', {'text': 'snow ☃', 'encoding': 'ascii'}, REJECT),
        ('unencodable-latin', {'text': '日本', 'encoding': 'latin-1'},
         REJECT),
        ('unencodable-surrogate-sig', {'text': 'a\ud83d', 'encoding':
                                       'utf-8-sig'}, REJECT),
        ('unencodable-surrogate-16', {'text': '\udc00b', 'encoding':
                                      'utf-16'}, REJECT),
        ('codec-unknown', {'encoding': 'nope-8'}, REJECT),
        ('codec-rot13', {'encoding': 'rot13', 'indent': 0}, REJECT),
        ('codec-rot13-default-indent', {'encoding': 'rot_13'}, REJECT),
        ('codec-hex', {'encoding': 'hex', 'indent': 0}, REJECT),
        ('unencodable-low-surrogate-8', {'text': 'a\udc80b\n', 'encoding':
                                         'utf-8'}, REJECT),
        ('unencodable-low-surrogate-a', {'text': '\udcff', 'encoding':
                                         'ascii'}, REJECT),
        ('unencodable-low-surrogate-l', {'text': 'x\udce9\n', 'encoding':
                                         'latin-1'}, REJECT),
        ('indent-float-integral', {'indent': {'$float': '4.0'}}, MAY),
        ('indent-neg', {'indent': -1}, MAY),
        ('indent-none', {'indent': None}, MAY),
        ('indent-str', {'indent': '4'}, MAY),
        ('indent-float', {'indent': 1.5}, MAY),
        ('codec-int', {'encoding': 5}, MAY),
        ('codec-empty', {'encoding': ''}, MAY),
        # a codec name typed with a look-alike of an ASCII character (the
        # codec lookup folds it; the header cannot carry it), together with
        # every other option a preamble takes
        ('codec-lookalike', {'encoding': 'utf\u201116', 'line_endings':
                             'dos', 'mimetype': 'text/markdown',
                             'text': 'a\r\nb\r\n'}, REJECT),
        ('codec-lookalike-8', {'encoding': 'UTF\u00ad8', 'indent': 2,
                               'line_endings': 'unix'}, REJECT),
    ],
    'write_meta': [
        ('meta-list', {'metadata': [1, 2]}, REJECT),
        ('meta-none', {'metadata': None}, REJECT),
        ('meta-str', {'metadata': '{}'}, REJECT),
        ('meta-empty', {'metadata': {}}, REJECT),
        ('format-yaml', {'meta_format': 'yaml'}, REJECT),
        ('format-percent', {'meta_format': '%s'}, REJECT),
        ('format-surrogate', {'meta_format': '\udc80'}, REJECT),
        ('format-upper', {'meta_format': 'JSON'}, REJECT),
        ('format-substr', {'meta_format': 'js'}, REJECT),
        ('format-empty', {'meta_format': ''}, REJECT),
        ('format-none', {'meta_format': None}, REJECT),
        ('codec-unknown', {'encoding': 'nope-8'}, REJECT),
        ('codec-rot13', {'encoding': 'rot13'}, REJECT),
        ('codec-base64', {'encoding': 'base64'}, REJECT),
        ('meta-nan', {'metadata': {'x': {'$float': 'nan'}}}, MAY),
        ('meta-unserialisable', {'metadata': {'x': {'$object': 1}}}, MAY),
        ('meta-tuple-key', {'metadata': {'x': {'$set': [1]}}}, MAY),
        ('codec-empty', {'encoding': ''}, MAY),
        ('codec-lookalike', {'encoding': 'utf\u20118'}, REJECT),
    ],
    'write_diff': [
        ('diff-str', {'content': 'abc'}, REJECT),
        ('diff-none', {'content': None}, REJECT),
        ('diff-empty', {'content_hex': ''}, REJECT),
        ('diff-bytearray', {'content': ['a']}, REJECT),
        ('type-x', {'diff_type': 'x'}, REJECT),
        ('type-percent', {'diff_type': '%(type)s'}, REJECT),
        ('type-braces', {'diff_type': '{}'}, REJECT),
        ('type-tuple', {'diff_type': {'$tuple': ['text', 'binary']}}, MAY),
        ('type-case', {'diff_type': 'Binary'}, REJECT),
        ('le-case-diff', {'line_endings': 'Dos'}, REJECT),
        ('type-substr', {'diff_type': 'tex'}, REJECT),
        ('type-empty', {'diff_type': ''}, REJECT),
        ('type-int', {'diff_type': 5}, REJECT),
        ('le-mac', {'line_endings': 'mac'}, REJECT),
        ('le-empty-diff', {'line_endings': ''}, REJECT),
        ('le-zero-diff', {'line_endings': 0}, REJECT),
        ('le-false-diff', {'line_endings': False}, REJECT),
        ('codec-unknown', {'encoding': 'nope-8', 'line_endings': None},
         REJECT),
        ('codec-unknown-le', {'encoding': 'nope-8', 'line_endings': 'unix'},
         MAY),
        ('codec-lookalike', {'encoding': 'latin\u20111', 'line_endings':
                             'dos', 'diff_type': 'binary'}, REJECT),
    ],
}
CONTAINER_VARIANTS = [
    ('codec-unknown', {'encoding': 'nope-8'}, MAY),
    ('codec-empty', {'encoding': ''}, MAY),
    ('codec-int', {'encoding': 5}, MAY),
    ('codec-space', {'encoding': 'a b'}, MAY),
    ('codec-nonascii', {'encoding': 'é'}, REJECT),
    ('codec-nonascii2', {'encoding': 'utf-8é'}, REJECT),
    ('codec-nonascii3', {'encoding': 'latin-1-\u00e9'}, REJECT),
    ('codec-nonascii4', {'encoding': 'utf\u20118'}, REJECT),
    ('codec-bytes', {'encoding': {'$bytes': '7574662d38'}}, MAY),
]


def valid_op(rng, name, scope_enc):
    if name in ('new_change', 'new_file'):
        op = {'op': name}
        e = gen.pick_enc(rng, 0.6)

        if e:
            op['encoding'] = e

        return op

    if scope_enc is None and name != 'write_diff':
        # no encoding in effect: some calls with plain ASCII text, some with
        # text that has no byte representation then
        op = gen.gen_content_op(rng, name[len('write_'):], 'ascii'
                                if rng.chance(0.5) else 'utf-8')

        if 'encoding' in op and op['encoding'] is None:
            del op['encoding']

        return op

    if scope_enc is UNKNOWN or not isinstance(scope_enc, str):
        scope_enc = 'utf-8'

    return gen.gen_content_op(rng, name[len('write_'):], scope_enc)


def generate(rng, tier, cls):
    main = rng.choice(gen.ENCS_COMMON if rng.chance(0.6) else gen.ENCS)

    if rng.chance(0.06):
        main = None         # a file that declares no encoding at all

    ops = []
    m = Model(main)
    n = rng.randint(1, 120 if tier == 'thorough' else 40)
    p_illegal = rng.choice([0.0, 0.1, 0.2, 0.4])
    p_bad = rng.choice([0.0, 0.1, 0.25, 0.5])

    if rng.chance(0.004):
        # a very long history (several thousand sections written)
        n = rng.randint(1100, 3300)
        p_illegal = rng.choice([0.1, 0.3])
        p_bad = 0.05

    for _ in range(n):
        legal_calls = [c for c in CALLS if m.legal(m.would_write(c))]

        if legal_calls and not rng.chance(p_illegal):
            name = rng.choice(legal_calls)
        else:
            name = rng.choice(CALLS)

        op = valid_op(rng, name, m.scope[-1])

        if rng.chance(p_bad):
            variants = CONTAINER_VARIANTS if name.startswith('new_') \
                else CONTENT_VARIANTS[name]
            vname, patch, vcls = rng.choice(variants)
            op.update(copy.deepcopy(patch))

            if 'content' in patch:
                op.pop('content_hex', None)

            op['variant'] = vname

        pred = m.predict(op)

        if pred != REJECT:
            m.advance(op)       # generator assumes MAY calls are accepted

        ops.append(op)

    spec = {'id': 'P1', 'kind': 'writer', 'file': 'f1',
            'main_encoding': main, 'ops': ops}

    if rng.chance(0.06):
        # a sink whose write() returns nothing
        spec['write_returns_none'] = True

    if rng.chance(0.05):
        spec['subclassed'] = True

    if rng.chance(0.1):
        spec['shadow'] = rng.below(50)

    if rng.chance(0.1):
        spec['hostile_handler'] = True

    if rng.chance(0.02):
        spec['version'] = rng.choice([None, '2.0', '', '1', 'x'])

    faults = []

    if cls == 'write_error':
        faults.append({'kind': 'write_error', 'file': 'f1',
                       'call': rng.randint(0, 4 * n + 3),
                       'torn': rng.choice([0, 0, 1, 5, 1000])})

    return {'actors': [spec], 'schedule': [], 'faults': faults}


def sweep_tasks(tier, master):
    depth = 6 if tier == 'quick' else 8
    tasks = []

    for a in range(len(CALLS)):
        for b in range(len(CALLS)):
            tasks.append({'name': 'sweep:call-sequences', 'a': a, 'b': b,
                          'depth': depth, 'exhaustive': True,
                          'label': 'every call sequence of length %d (hence '
                                   'every shorter one as a prefix) over the 5 '
                                   'calls with valid arguments' % depth})

    return tasks


FIXED_OPS = {
    'new_change': {'op': 'new_change'},
    'new_file': {'op': 'new_file', 'encoding': 'latin-1'},
    'write_preamble': {'op': 'write_preamble', 'text': 'p\n'},
    'write_meta': {'op': 'write_meta', 'metadata': {'k': 1}},
    'write_diff': {'op': 'write_diff', 'content_hex': '780a'},
}


def sweep_scenarios(task):
    depth = task['depth']
    n = len(CALLS)

    def rec(seq, d):
        if d == 0:
            yield {'actors': [{'id': 'P1', 'kind': 'writer', 'file': 'f1',
                               'main_encoding': 'utf-8',
                               'ops': [dict(FIXED_OPS[CALLS[i]])
                                       for i in seq]}],
                   'schedule': [], 'faults': []}
            return

        for i in range(n):
            for x in rec(seq + [i], d - 1):
                yield x

    for x in rec([task['a'], task['b']], depth - 2):
        yield x


class Model(object):
    """Hierarchy + argument-class model of the writer's call protocol."""

    def __init__(self, main):
        self.prev = 'diffx'
        self.level = 0
        self.scope = [main]

    def would_write(self, name):
        if name == 'new_change':
            return '.change'
        elif name == 'new_file':
            return '..file'

        return '.' * (self.level + 1) + name[len('write_'):]

    def legal(self, sid):
        return sid in R.NEXT[self.prev]

    def arg_class(self, op):
        """'valid' | REJECT | MAY for the arguments alone."""
        from dsim.actors import pyval
        name = op['op']
        enc = pyval(op.get('encoding')) if 'encoding' in op else None

        if isinstance(enc, str) and not enc.isascii():
            # a name that has no representation in the (ASCII) header line:
            # unencodable text
            return REJECT

        if name in ('new_change', 'new_file'):
            if enc is None:
                return 'valid'

            if isinstance(enc, str) and enc and R.codec_known(enc) and \
               R.VAL_RE.match(enc.encode('utf-8', 'replace')):
                return 'valid'

            return MAY

        cls = 'valid'

        if enc is not None and not (isinstance(enc, str) and enc):
            cls = MAY
            enc_eff = UNKNOWN
        elif enc is not None:
            enc_eff = enc

            if not R.VAL_RE.match(enc.encode('utf-8', 'replace')):
                # a name the header line cannot carry (the codec lookup may
                # know it all the same)
                cls = MAY
        elif name == 'write_diff':
            enc_eff = None
        else:
            enc_eff = self.scope[-1]

        le = pyval(op.get('line_endings'))

        if name != 'write_meta' and le is not None and \
           le not in ('unix', 'dos'):
            return REJECT

        if name == 'write_preamble':
            text = pyval(op.get('text'))

            if not isinstance(text, str) or not text:
                return REJECT

            mt = pyval(op.get('mimetype'))

            if mt is not None and mt not in R.MIMETYPES:
                return REJECT

            if 'indent' in op:
                ind = pyval(op['indent'])

                if not isinstance(ind, int) or isinstance(ind, bool) or \
                   ind < 0:
                    cls = MAY

            payload = text
        elif name == 'write_meta':
            md = pyval(op.get('metadata'))

            if not isinstance(md, dict) or not md:
                return REJECT

            if 'meta_format' in op and pyval(op['meta_format']) != 'json':
                return REJECT

            try:
                payload = R.canon_json(md)

                if 'NaN' in payload or 'Infinity' in payload:
                    cls = MAY
            except (TypeError, ValueError):
                return MAY
        else:
            if 'content' in op:
                content = pyval(op['content'])
            else:
                try:
                    content = bytes.fromhex(op.get('content_hex', ''))
                except (TypeError, ValueError):
                    return MAY

            if not isinstance(content, bytes) or not content:
                return REJECT

            dt = pyval(op.get('diff_type'))

            if dt is not None and dt not in R.DIFF_TYPES:
                return REJECT

            payload = None

        if enc_eff is UNKNOWN:
            return MAY

        if name == 'write_diff':
            if enc_eff is not None and not R.codec_known(enc_eff):
                # the newline cannot even be encoded - unless line_endings
                # is given and the implementation never needs the codec
                return REJECT if le is None else MAY

            return cls

        if enc_eff is None:
            # no encoding anywhere: text has a byte representation only if
            # it is plain ASCII (accepting that is optional), none otherwise
            try:
                payload.encode('ascii')
                return MAY
            except UnicodeError:
                return REJECT

        if not isinstance(enc_eff, str) or not R.codec_known(enc_eff):
            return REJECT

        try:
            payload.encode(enc_eff)
        except (UnicodeError, LookupError):
            return REJECT

        return cls

    def predict(self, op):
        try:
            ac = self.arg_class(op)
        except Exception:
            return MAY

        if ac == REJECT:
            return REJECT

        if not self.legal(self.would_write(op['op'])):
            return REJECT

        return ACCEPT if ac == 'valid' else MAY

    def advance(self, op):
        from dsim.actors import pyval
        name = op['op']

        if name in ('new_change', 'new_file'):
            lvl = 1 if name == 'new_change' else 2
            enc = pyval(op.get('encoding')) if 'encoding' in op else None
            del self.scope[lvl:]

            if enc is None:
                self.scope.append(self.scope[-1])
            elif self.arg_class(op) == 'valid':
                self.scope.append(enc)
            else:
                self.scope.append(UNKNOWN)

            self.level = lvl

        self.prev = self.would_write(name)


def run_writer(scn, L, spec, faults):
    w = pipe.make_world(dict(scn, faults=faults), L, [spec])
    w.run()
    return w, w.actors[spec['id']]


def execute(scn, L):
    out = pipe.Outcome()
    specs = [a for a in scn.get('actors', ()) if a.get('kind') == 'writer']

    if not specs:
        out.discarded = 'no-writer'
        return out

    spec = specs[0]
    main = spec.get('main_encoding', 'utf-8')

    if main is not None and (
            not isinstance(main, str) or not main or
            not R.codec_known(main) or
            not R.VAL_RE.match(main.encode('utf-8', 'replace'))):
        out.discarded = 'outside-domain'
        return out

    if main is None:
        out.probe('writer_without_any_encoding')

    ops = [op for op in spec.get('ops', ())
           if isinstance(op, dict) and op.get('op') in CALLS]
    spec = dict(spec, ops=ops)
    bad_version = 'version' in spec and spec['version'] != '1.0'

    if not bad_version:
        spec.pop('version', None)
    faults = [f for f in scn.get('faults', ()) if f.get('kind') in
              ('write_error',)]
    w, wa = run_writer(scn, L, spec, faults)
    out.absorb(w)
    out.case_key = pipe.scn_digest([main, ops, faults])
    m = Model(main)
    accepted = []
    decisions = []
    later_rejections = []
    nrej = 0
    acc_after_rej = False
    inflight = None

    for c in wa.calls:
        if c['i'] < 0:
            if c['outcome'] == 'io-error':
                break

            if bad_version:
                # a writer for a version of the format that does not exist
                # (None included): refused, nothing written
                if c['outcome'] == 'ok' or c['wrote']:
                    out.violate('C09.accepted-but-must-reject',
                                'ctor:version', {'version': spec['version'],
                                                 'wrote': c['wrote']})

                out.probe('constructor_refused_version')
                out.case_key = pipe.scn_digest([main, spec['version']])
                return out

            if c['outcome'] != 'ok':
                out.violate('C09.ctor', c['outcome'], c.get('exc'))
                return out

            if c['wrote'] < 1:
                out.violate('C09.append', 'ctor-wrote-nothing', None)

            continue

        op = ops[c['i']]
        pred = m.predict(op)
        prev = m.prev
        variant = op.get('variant', '-')
        out.states.add('%s|%s|%s|%s' % (prev, op['op'], pred, variant))

        if c['outcome'] in ('io-error', 'crash'):
            # injected fault: the producer stops here; the call in flight
            # may have persisted part of its section
            inflight = op
            break

        info = {'index': c['i'], 'op': op, 'prev': prev, 'pred': pred,
                'exc': c.get('exc'), 'wrote': c['wrote']}

        if c['outcome'] == 'raise':
            nrej += 1
            decisions.append('r')

            if nrej > 1:
                # (rejected after an earlier rejection: see (5) below)
                later_rejections.append((c['i'], len(accepted), c.get('exc')))

            if c['wrote'] != 0 or c['nwrites'] != 0:
                out.violate('C09.rejected-call-wrote', '%s:%s' % (
                    op['op'], variant), info)
                return out

            if pred == ACCEPT:
                out.violate('C09.valid-legal-call-rejected', '%s:%s' % (
                    prev, op['op']), info)
                return out
        else:
            decisions.append('a')

            if pred == REJECT:
                legal = m.legal(m.would_write(op['op']))
                out.violate('C09.accepted-but-must-reject', '%s:%s:%s' % (
                    prev if not legal else 'arg', op['op'], variant), info)
                return out

            if c['wrote'] < 1:
                out.violate('C09.append', 'accepted-call-wrote-nothing',
                            info)
                return out

            if nrej:
                acc_after_rej = True

            m.advance(op)
            accepted.append(op)

    data = w.visible(spec['file'])
    out.nontrivial = len(ops) >= 3 and nrej >= 1 and acc_after_rej

    # (4) twin run: only the accepted calls, fresh writer, no faults
    twin = dict(spec, id='TWIN', file='twin',
                ops=copy.deepcopy(accepted + ([inflight] if inflight else [])))
    w2, ta = run_writer(scn, L, twin, [])
    out.absorb(w2)
    tdata = w2.visible('twin')
    twin_ok = all(c['outcome'] == 'ok' for c in ta.calls)

    if inflight is not None and ta.calls and \
       ta.calls[-1]['i'] == len(accepted) and \
       ta.calls[-1]['outcome'] == 'raise':
        # the call that met the I/O error would have been rejected anyway
        ta.calls.pop()

    twin_ok = all(c['outcome'] == 'ok' for c in ta.calls)

    if not twin_ok:
        bad = [c for c in ta.calls if c['outcome'] != 'ok'][0]
        out.violate('C09.twin-decision', '%s' % (
            twin['ops'][bad['i']]['op'] if bad['i'] >= 0 else 'ctor'),
            {'index': bad['i'], 'exc': bad.get('exc')})
    elif faults and (wa.io_error or wa.crashed):
        out.probe('write_error_fired')

        if not tdata.startswith(data):
            out.violate('C09.not-prefix-under-write-error', 'stored', {
                'stored': len(data), 'twin': len(tdata)})
    elif tdata != data:
        k = 0

        while k < min(len(data), len(tdata)) and data[k] == tdata[k]:
            k += 1

        out.violate('C09.twin-bytes', 'differ',
                    {'offset': k, 'with_rejected_calls': data[max(0, k - 30):
                                                              k + 30],
                     'accepted_only': tdata[max(0, k - 30):k + 30]})

    # (5) what a rejected call reports: a call that is rejected after
    # earlier rejected calls raises the same error (type and text) as on a
    # fresh writer that was only ever given the accepted calls before it -
    # the earlier rejected calls left no trace
    if not out.violations and not faults:
        for idx, nacc, exc in later_rejections[-2:]:
            if '$object' in repr(ops[idx]) or '0x' in str((exc or {}).get(
                    'msg')):
                continue        # (messages that may hold an address)

            probe = dict(spec, id='PROBE', file='probe',
                         ops=copy.deepcopy(accepted[:nacc] + [ops[idx]]))
            probe.pop('shadow', None)
            w3, pa = run_writer(scn, L, probe, [])
            out.absorb(w3)
            last = pa.calls[-1] if pa.calls else None

            if last is None or last['i'] != nacc:
                continue

            out.probe('rejection_message_compared')
            pexc = last.get('exc') or {}

            if last['outcome'] != 'raise':
                out.violate('C09.twin-decision', 'probe:%s' %
                            ops[idx]['op'], {'index': idx})
            elif exc and (pexc.get('type') != exc.get('type') or
                          pexc.get('msg') != exc.get('msg')):
                out.violate('C09.rejection-depends-on-rejected-calls',
                            ops[idx]['op'],
                            {'index': idx, 'with_earlier_rejections': exc,
                             'fresh_writer': pexc})

    if nrej:
        out.probe('runs_with_rejections')

    return out
