"""C07 — length frames content: truncated / damaged files never yield altered
sections  (fault_enumeration).

Workload: files from the pydiffx writer (C01 histories) and from the foreign
producer (C03-A), content full of header look-alikes and every newline
flavour.  Faults:
  cuts      every cut point 0..len(file) of each generated file (complete
            per-file sweep; subsumes producer crash at any write boundary,
            torn writes, a reader overtaking its writer)
  crash     the producer really dies at byte k inside a write() (torn write)
  overtake  a reader opens the file while its writer is still going
  follow    one long-lived reader follows the file while it grows (seeded
            writer / reader schedule; it asks for a record only when a
            further complete section has been stored)
  length    a `length` raised beyond the data present / made negative / made
            non-numeric
Oracle: with R = records of the intact file (same reader, same block size),
the faulty run yields R[:k] for some k - every yielded record equal in
content and options (the perturbed length option itself excepted) - then
stops normally or with DiffXParseError.
"""

from dsim import gen, pipe
from dsim import refmodel as R
from dsim.actors import read_all, exc_summary
from dsim.props import c01
from dsim.actors import STREAM_KINDS
from dsim.world import World

ID = 'C07'
LEVEL = 'fault_enumeration'
CLASSES = [('cuts_writer', 4), ('cuts_foreign', 4), ('crash', 1),
           ('overtake', 1), ('follow', 1), ('length', 3),
           ('length_delta', 2)]
TIERS = {'quick': {'chunk': 10, 'budget_s': 25.0},
         'thorough': {'chunk': 40}}
RULE = ('per generated file (writer- or foreign-produced) up to 4000 bytes '
        'EVERY cut point 0..len(file) is read (complete sweep per file; '
        'probe files_swept_completely) unless a cost model of the file and '
        'the block size says the sweep is too expensive, in which case an '
        'evenly spaced subset is read (probe cut_sweep_thinned_for_cost); '
        'larger files: a grid plus every section boundary; plus producer '
        'crashes inside write(), readers overtaking writers, a reader '
        'following the growing file, and length '
        'options raised beyond EOF / negative / non-numeric; an evaluation '
        'is one reader run over one faulty copy; non-trivial = the cut lies '
        'strictly inside the file (or a length fault that took); distinct = '
        'distinct (file digest, fault) pairs')
ASSUMPTIONS = [
    'R (records of the intact file) is produced by the same reader, itself '
    'checked against the model in C01/C03',
    'a +delta on length that stays inside the data is not a fault of this '
    'property and is not generated',
    'short reads on the content read of an *intact* stream are not injected',
]
STATE_MEASURE = ('distinct (section kind at the fault, position class: '
                 'in-header / header-last-byte / first-content-byte / '
                 'after-inner-newline / last-content-byte / between-sections '
                 '/ inside-content, outcome class)')

NONNUMERIC = ['abc', '1.5', '1e3', '0x10', '12a', '-', '.', 'x1', '1-1',
              # other spellings of the *true* length / of an inner line end:
              # not decimal integers, so never acceptable
              '@hex', '@oct', '@bin', '@hex-inner', '@HEX',
              '@hex', '@hex-inner',
              # the true length with an explicit sign / in a spelling int()
              # would take: not the grammar's non-negative integer either
              '@plus', '@plus', '@plus0']


def generate(rng, tier, cls):
    bs = rng.choice([None, None, 1, 5, 16, 64, 97, 1000])

    if cls in ('cuts_writer', 'crash', 'overtake', 'follow') or \
       (cls in ('length', 'length_delta') and rng.chance(0.5)):
        k = 3 if tier == 'thorough' else 2
        main, ops = gen.gen_history(rng, max_changes=k, max_files=k,
                                    big=rng.chance(0.04))
        prod = {'id': 'P1', 'kind': 'writer', 'file': 'f1',
                'main_encoding': main, 'ops': ops}
    else:
        prod = {'id': 'P1', 'kind': 'raw', 'file': 'f1',
                'foreign': gen.gen_foreign(
                    rng, max_changes=3 if tier == 'thorough' else 2,
                    max_files=3 if tier == 'thorough' else 2,
                    big=rng.chance(0.08))}

    kind, buf = gen.gen_stream(rng)
    scn = {'actors': [prod], 'schedule': [], 'faults': [],
           'block_size': bs, 'stream': kind, 'buf': buf,
           'shadow': rng.below(50) if rng.chance(0.06) else None}

    if cls == 'cuts_foreign' and rng.chance(0.02):
        # a dump-like diff of several hundred KiB in fixed-length lines
        # (power-of-two line lengths: line ends fall on every power-of-two
        # boundary of the content), cut at a grid of points
        ln = rng.choice([16, 32, 64, 128, 100])
        scn['actors'] = [{'id': 'P1', 'kind': 'raw', 'file': 'f1',
                          'blocks': {'line': ln,
                                     'count': rng.choice([140000, 270000,
                                                          400000]) // ln,
                                     'tail': rng.choice([0, 5, 17]),
                                     'crlf': rng.chance(0.2)}}]
        scn['block_size'] = None
        scn['stream'] = rng.choice(['sim', 'bytesio'])

    if cls.startswith('cuts'):
        scn['cuts'] = {'mode': 'all'}
    elif cls == 'crash':
        scn['faults'] = [{'kind': 'crash', 'file': 'f1',
                          'at': rng.randint(0, 60) if rng.chance(0.3)
                          else rng.randint(0, 1500)}]
    elif cls == 'overtake':
        scn['overtake_after'] = rng.randint(0, len(prod.get('ops', ())) + 1)
    elif cls == 'follow':
        # one long-lived reader following the file while it grows: every
        # moment of it is a cut at a section boundary, seen by a reader that
        # has already read what came before
        n = len(prod.get('ops', ())) + 1
        order = ['P1'] * n + ['R1'] * (n + 2)
        rng.shuffle(order)
        scn['follow_schedule'] = order
    elif cls == 'length_delta':
        # every small delta on every content section of the file
        scn['length_deltas'] = [-5, -4, -3, -2, -1, 1, 2, 3, 4, 5,
                                rng.randint(-40, -6), rng.randint(6, 40)]
    else:
        k = rng.below(3)
        f = {'kind': 'length_fault', 'file': 'f1', 'key': 'length',
             'section_pick': rng.below(1000)}

        if k == 0:
            f['mode'] = 'beyond'
            f['extra'] = rng.choice([1, 2, 3, 10, 100, 5000])
        elif k == 1:
            f['mode'] = 'negative'
            f['value'] = rng.choice([-1, -2, -3, -10, -100000])
        else:
            f['mode'] = 'nonnumeric'
            f['value'] = rng.choice(NONNUMERIC)

        scn['faults'] = [f]

    return scn


def focus(scn, v):
    """Before shrinking: restrict a sweep to the failing cut."""
    info = v.get('info') or {}

    if 'cut' in info and scn.get('cuts', {}).get('mode') == 'all':
        s = dict(scn)
        s['cuts'] = {'mode': 'list', 'at': [info['cut']]}
        return s

    return scn


def position_class(k, spans, recs, n):
    """(section type, position class) of cut point k."""
    if k >= n:
        return ('eof', 'at-end')

    for rec, (hs, he, ce) in zip(recs, spans):
        if hs <= k < he:
            return (rec['type'], 'header-last-byte' if k == he - 1
                    else 'in-header')

        if he <= k < ce:
            if k == he:
                return (rec['type'], 'first-content-byte')
            elif k == ce - 1:
                return (rec['type'], 'last-content-byte')

            return (rec['type'], 'inside-content')

    return ('blank', 'between-sections')


def content_of(rec):
    k = pipe.content_key(rec.get('type'))
    return k, rec.get(k) if k else None


def judge(out, tag, R_full, recs, end, exc, L, ctx, allow_length_on=None,
          data_end_section=None, spans=None, cut=None, swallow=None,
          tail=None):
    """Compare a faulty run with the intact records.  Returns outcome
    class (str)."""
    n = len(recs)
    info = dict(ctx)

    if cut is not None:
        info['cut'] = cut

    if end == 'hang':
        # the per-scenario CPU allowance ran out inside this read: that is
        # about the size of the scenario, not a verdict on the reader
        from dsim.world import SimHang
        raise SimHang()

    if end == 'cap':
        out.violate('C07.no-termination', tag, info)
        return 'hang'

    if n > len(R_full):
        info.update({'yielded': n, 'intact': len(R_full)})
        out.violate('C07.extra-records', tag, info)
        return 'extra'

    for i in range(n):
        g, w = recs[i], R_full[i]
        d = None

        if not isinstance(g, dict):
            d = '<not-a-dict>'
        else:
            for k in sorted(set(g) | set(w)):
                if k.startswith('_nl_'):
                    continue

                if k not in g:
                    d = '-' + k
                elif k not in w:
                    d = '+' + k
                elif k == 'options':
                    go, wo = g[k], w[k]

                    if allow_length_on == i and isinstance(go, dict):
                        go = dict(go)
                        wo = dict(wo)
                        go.pop('length', None)
                        wo.pop('length', None)

                    dd = pipe.cmp_options(go, wo)

                    if dd is not None:
                        d = 'options' + dd
                elif k == 'metadata':
                    if not pipe.json_eq(g[k], w[k]):
                        d = '!metadata'
                elif type(g[k]) is not type(w[k]) or g[k] != w[k]:
                    d = '!' + k

                if d is not None:
                    break

        if d is None:
            continue

        # an altered record.  Narrow signatures of the recorded finding
        # (reader never checks that read(length) returned `length` bytes):
        ck, cv = content_of(w)
        gv = g.get(ck) if isinstance(g, dict) else None
        info.update({'index': i, 'differs': d, 'got': gv, 'intact': cv})

        if d == '!' + str(ck) and ck in ('text', 'diff') and \
           type(gv) is type(cv) and i == n - 1 and end == 'eof':
            # ... and the shortened content still ends in the section's own
            # line ending (that is why the reader's only integrity check, the
            # trailing newline, cannot notice)
            nlk = w.get('_nl_text') if isinstance(gv, str) \
                else w.get('_nl_bytes')

            # ... and the bytes present end right after a line ending of the
            # section (only then is what the reader got newline-terminated)
            if cut is not None and data_end_section == i and \
               len(gv) < len(cv) and cv.startswith(gv) and \
               nlk and gv.endswith(nlk) and \
               (tail is None or
                (tail.rstrip(b' ') if (w.get('options') or {}).get('indent')
                 else tail).endswith(w.get('_nl_bytes') or b'\n')):
                out.violate('C07.altered-record',
                            'cut-inside-content:short-content-yielded', info)
                return 'known-short'

            if swallow is not None and swallow.get('index') == i and \
               gv == swallow.get('expect'):
                out.violate('C07.altered-record',
                            'length-beyond-eof:rest-of-file-swallowed', info)
                return 'known-swallow'

        out.violate('C07.altered-record', '%s:%s:%s' % (tag, w['type'], d),
                    info)
        return 'altered'

    if end == 'raise':
        es = exc_summary(exc, L)

        if not es['parse_error']:
            info['exc'] = es
            out.violate('C07.other-exception', '%s:%s:%s' % (
                tag, es['type'], es['func']), info)
            return 'other-exception'

        return 'prefix+parse-error'

    return 'prefix+eof' if n < len(R_full) else 'complete'


def run_producer(scn, L, out, extra_actors=()):
    actors = []

    for a in scn.get('actors', ()):
        if a.get('kind') == 'writer':
            a = pipe.effective_writer_spec(a)

            if a is None:
                return None, None

        actors.append(a)

    actors.extend(extra_actors)
    w = pipe.make_world(scn, L, actors)
    return w, actors


def execute(scn, L):
    out = pipe.Outcome()
    out.evals = 0
    bs = scn.get('block_size')
    skw = {'stream': scn.get('stream') if scn.get('stream') in
           STREAM_KINDS else 'sim', 'buf': scn.get('buf'),
           'extras': {'shadow': scn.get('shadow')}}
    crash = [f for f in scn.get('faults', ()) if f['kind'] == 'crash']
    lenf = [f for f in scn.get('faults', ()) if f['kind'] == 'length_fault']

    # 1. the intact file: run the producer without write faults
    clean = dict(scn, faults=[])
    w0, actors = run_producer(clean, L, out)

    if w0 is None or not actors:
        out.discarded = 'outside-domain'
        return out

    w0.run()
    out.absorb(w0)
    fname = actors[0]['file']
    intact = w0.visible(fname)
    spans = []

    try:
        ref = R.ref_parse(intact, spans)
    except R.RefReject as e:
        out.discarded = 'intact-not-wellformed:' + e.kind
        return out

    if not ref:
        out.discarded = 'empty-file'
        return out

    wA = World(scn, L)
    R_full, end, exc = read_all(wA, intact, block_size=bs, actor='intact', **skw)
    out.absorb(wA)

    if end != 'eof' or len(R_full) != len(ref):
        out.discarded = 'intact-unreadable'
        return out

    for rr, rf in zip(R_full, ref):
        if '_kind' in rf and isinstance(rr, dict):
            rr['_nl_text'] = '\n' if rf['_kind'] == 'unix' else '\r\n'
            rr['_nl_bytes'] = R.NL(rf['_kind'], rf['_eff'])

    fdig = pipe.scn_digest([intact.hex(), bs])
    out.case_key = fdig
    ctx = {'file_len': len(intact), 'block_size': bs}

    def one_cut(k, tag):
        wk = World(scn, L)
        recs, e, x = read_all(wk, intact[:k], block_size=bs, actor='cut', **skw)
        out.absorb(wk)
        out.evals += 1
        sec = None

        for i, (hs, he, ce) in enumerate(spans):
            if he < k < ce:
                sec = i

        cls = judge(out, tag, R_full, recs, e, x, L, ctx, cut=k,
                    data_end_section=sec, spans=spans,
                    tail=intact[(spans[sec][1] if sec is not None else max(0, k - 400)):k])
        if e == 'raise' and exc_summary(x, L)['parse_error'] and \
           (len(intact) - k <= 4 or k % 37 == 0):
            # the object-model loader is that reader plus a tree builder:
            # it cannot make a tree of a copy its reader refuses (the cuts
            # next to the end of the file, and a regular sample of the
            # others)
            out.evals += 1

            try:
                L.DiffX.from_bytes(intact[:k])
                out.violate('C07.loader-accepts-refused-copy', tag,
                            dict(ctx, cut=k, reader=exc_summary(x, L)))
            except Exception:
                out.probe('loader_refuses_what_its_reader_refuses')

        st, pc = position_class(k, spans, ref, len(intact))

        if 0 < k < len(intact) and intact[k - 1:k] == b'\n' and \
           pc == 'inside-content':
            pc = 'after-inner-newline'

        out.states.add('%s|%s|%s' % (st, pc, cls))
        out.probe('cut:' + pc)
        out.faults['cut'] = out.faults.get('cut', 0) + (1 if k < len(intact)
                                                        else 0)

    cuts = scn.get('cuts')

    if cuts:
        complete = False

        if cuts.get('mode') == 'all' and len(intact) <= 4000:
            ks = range(0, len(intact) + 1)
            out.case_weight = max(0, len(intact) - 1)
            complete = True
        elif cuts.get('mode') == 'all':
            # a very large file: every cut around every section boundary
            # and a regular grid in between (not a complete sweep)
            ks = set(range(0, len(intact) + 1, max(1, len(intact) // 400)))

            # (bounded work per file: with very many sections, the boundaries
            # of an evenly spaced subset of them)
            step = max(1, -(-len(spans) // 60))

            for hs, he, ce in spans[::step]:
                for b in (hs, he, ce):
                    ks.update(range(max(0, b - 3), min(len(intact), b + 3)
                                    + 1))

            ks = sorted(ks)

            # bounded work per file: about 25 MB read in total
            lim = max(20, 25000000 // max(1, len(intact)))

            if len(ks) > lim:
                ks = ks[::-(-len(ks) // lim)]

            out.case_weight = len([k for k in ks if 0 < k < len(intact)])
            out.probe('large_file_cut_grid')
        else:
            ks = [int(k) for k in cuts.get('at', ()) if
                  0 <= int(k) <= len(intact)]
            out.case_weight = len([k for k in ks if 0 < k < len(intact)])

        if cuts.get('mode') == 'all':
            # bounded work per file, by a cost model that is a function of
            # the file and the block size alone (never of the clock): one
            # pass costs about one read + one seek per block of every
            # header line and per blank line
            bse = bs if isinstance(bs, int) and bs > 0 else 96
            hdr_bytes = len(intact) - sum(ce - he for hs, he, ce in spans)
            per_pass = hdr_bytes // bse + intact.count(b'\n') - sum(
                intact.count(b'\n', he, ce) for hs, he, ce in spans) + \
                len(spans) + 1
            lim = max(25, 1200000 // max(1, per_pass))
            ks = list(ks)

            if len(ks) > lim:
                ks = ks[::-(-len(ks) // lim)]
                out.case_weight = len([k for k in ks if 0 < k < len(intact)])
                out.probe('cut_sweep_thinned_for_cost')
                complete = False

            if complete:
                out.probe('files_swept_completely')

        for k in ks:
            one_cut(k, 'cut')

        out.nontrivial = out.case_weight > 0
        return out

    if scn.get('length_deltas'):
        # length legitimately frames other bytes now: the truth is the
        # reference parser's reading of the perturbed file (records up to
        # its first rejection, then a parse error), never an altered record
        from dsim.world import rewrite_header
        contents = [i for i, r in enumerate(ref) if '_eff' in r]
        nd = 0
        # bounded work per file (each evaluation reads the whole file and
        # parses it with the reference parser): an evenly spaced subset of
        # the content sections of a very large / very long file
        lim = max(1, (40000000 // max(1, len(intact))) //
                  max(1, len(scn['length_deltas'])))

        if len(contents) > lim:
            contents = contents[::-(-len(contents) // lim)]

        for i in contents:
            hs, he, ce = spans[i]

            for d in scn['length_deltas']:
                if not isinstance(d, int) or d == 0:
                    continue

                newlen = (ce - he) + d

                if newlen < 0:
                    continue

                new = rewrite_header(intact[hs:he], b'length',
                                     str(newlen).encode('ascii'))

                if new is None:
                    continue

                faulty = intact[:hs] + new + intact[he:]
                partial = []
                rej = None

                try:
                    R.ref_parse(faulty, None, partial)
                except R.RefReject as e:
                    rej = e
                except Exception:
                    continue

                want = list(partial)
                wk = World(scn, L)
                recs, e, x = read_all(wk, faulty, block_size=bs,
                                      actor='delta', **skw)
                out.absorb(wk)
                out.evals += 1
                nd += 1
                info = dict(ctx, section=i, delta=d)
                out.states.add('delta|%s|%s|%s' % (
                    ref[i]['type'], 'neg' if d < 0 else 'pos',
                    rej.kind if rej else 'accepted'))

                if e in ('cap', 'hang'):
                    out.violate('C07.no-termination', 'length-delta', info)
                    return out

                if rej is not None and rej.kind == 'length-beyond-eof':
                    continue        # that case belongs to the `length` class

                if len(recs) > len(want) or (rej is None and e != 'eof'):
                    info.update({'yielded': len(recs),
                                 'reference': len(want),
                                 'reference_rejects': rej.kind if rej
                                 else None})
                    out.violate('C07.delta-beyond-reference',
                                '%s:%s' % (ref[i]['type'],
                                           'neg' if d < 0 else 'pos'), info)
                    return out

                if not pipe.check_records_against_ref(
                        out, 'C07.delta-record', ref[i]['type'], recs,
                        want[:len(recs)]):
                    return out

                if rej is not None:
                    if e == 'eof' or len(recs) < len(want):
                        if e == 'eof':
                            info['reference_rejects'] = rej.kind
                            out.violate('C07.delta-accepted', '%s:%s' % (
                                ref[i]['type'], rej.kind), info)
                            return out
                    elif e == 'raise' and not exc_summary(x, L)['parse_error']:
                        info['exc'] = exc_summary(x, L)
                        out.violate('C07.other-exception', '%s:%s:%s' % (
                            'length-delta', info['exc']['type'],
                            info['exc']['func']), info)
                        return out

        out.faults['length_delta'] = nd
        out.case_key = pipe.scn_digest([fdig, 'deltas',
                                        scn['length_deltas']])
        out.case_weight = nd
        out.nontrivial = nd > 0
        return out

    if crash:
        # the producer really dies inside a write()
        w1, _ = run_producer(dict(scn, faults=crash), L, out)
        w1.run()
        out.absorb(w1)
        stored = w1.visible(fname)

        if not intact.startswith(stored):
            out.violate('C07.crash-not-prefix', 'stored-not-a-prefix',
                        {'stored': len(stored)})
            return out

        k = len(stored)
        one_cut(k, 'crash')
        out.case_key = pipe.scn_digest([fdig, 'crash', k])
        out.nontrivial = 0 < k < len(intact)

        if out.nontrivial:
            out.probe('producer_crashed_mid_file')

        return out

    if 'follow_schedule' in scn:
        rspec = {'id': 'R1', 'kind': 'reader', 'file': fname, 'follow': True,
                 'block_size': bs}
        s2 = dict(scn, faults=[])
        s2['schedule'] = [x for x in scn['follow_schedule']
                          if x in ('P1', 'R1')][:2000]
        w1, _ = run_producer(s2, L, out, extra_actors=[rspec])
        w1.run()
        out.absorb(w1)
        ra = w1.actors['R1']
        out.evals += 1

        if w1.visible(fname) != intact:
            out.discarded = 'follow-file-differs'
            return out

        cls = judge(out, 'follow', R_full, ra.records, ra.end, ra.exc, L,
                    ctx, cut=len(intact))

        if cls == 'ok' or not out.violations:
            if ra.end != 'eof' or len(ra.records) != len(R_full):
                out.violate('C07.follower-stops-early', '%s:%d/%d' % (
                    ra.end, len(ra.records), len(R_full)),
                    dict(ctx, exc=exc_summary(ra.exc, L)
                         if ra.exc is not None else None))

        live = getattr(ra, 'followed_live', 0)

        if live >= 2:
            out.probe('records_read_while_producer_still_writing')

        out.faults['followed_growing_file'] = 1
        out.states.add('follow|%s|%s' % (cls, min(live, 5)))
        out.case_key = pipe.scn_digest([fdig, 'follow', s2['schedule']])
        out.nontrivial = live >= 1
        return out

    if 'overtake_after' in scn:
        rid = 'R1'
        rspec = {'id': rid, 'kind': 'reader', 'file': fname, 'wait': False,
                 'block_size': bs}
        n_before = int(scn['overtake_after'])
        s2 = dict(scn, faults=[])
        s2['schedule'] = [actors[0]['id']] * n_before + [rid] * 400
        w1, _ = run_producer(s2, L, out, extra_actors=[rspec])
        w1.run()
        out.absorb(w1)
        ra = w1.actors[rid]
        out.evals += 1

        if ra.data is None:
            out.discarded = 'reader-never-opened'
            return out

        k = len(ra.data)

        if not intact.startswith(ra.data):
            out.discarded = 'overtake-not-prefix'
            return out

        sec = None

        for i, (hs, he, ce) in enumerate(spans):
            if he < k < ce:
                sec = i

        cls = judge(out, 'overtake', R_full, ra.records, ra.end, ra.exc, L,
                    ctx, cut=k, data_end_section=sec, spans=spans,
                    tail=intact[(spans[sec][1] if sec is not None else max(0, k - 400)):k])
        out.faults['overtake'] = out.faults.get('overtake', 0) + \
            (1 if k < len(intact) else 0)
        out.states.add('overtake|%s' % cls)
        out.case_key = pipe.scn_digest([fdig, 'overtake', k])
        out.nontrivial = 0 < k < len(intact)
        return out

    if lenf:
        f = lenf[0]
        contents = [i for i, r in enumerate(ref) if '_eff' in r]

        if not contents:
            out.discarded = 'no-content-section'
            return out

        i = contents[int(f.get('section_pick', 0)) % len(contents)]
        hs, he, ce = spans[i]
        mode = f.get('mode')
        swallow = None
        allow = None

        if mode == 'beyond':
            remaining = len(intact) - ce
            newlen = (ce - he) + remaining + int(f.get('extra', 1))
            val = str(newlen)
            allow = i

            if remaining > 0:
                # what today's reader makes of it (finding shape 2): the
                # section swallows the rest of the file
                swallow = {'index': i}
        elif mode == 'negative':
            val = str(int(f.get('value', -1)))

            if int(val) >= 0:
                out.discarded = 'fault_not_taken'
                return out
        else:
            val = str(f.get('value', 'abc'))

            if val.startswith('@'):
                n = ce - he
                inner = intact.find(b'\n', he, ce - 1)
                k = (inner + 1 - he) if inner >= 0 else n
                val = {'@hex': hex(n), '@oct': oct(n), '@bin': bin(n),
                       '@HEX': '0X%X' % n, '@hex-inner': hex(k),
                       '@plus': '+%d' % n, '@plus0': '+0%d' % n,
                       '@underscore': ('%d_%d' % (n // 10, n % 10))
                       if n >= 10 else '0_%d' % n}.get(val, 'abc')

            if R.INT_RE.match(val):
                out.discarded = 'fault_not_taken'
                return out

        from dsim.world import rewrite_header
        new = rewrite_header(intact[hs:he], b'length', val.encode('ascii'))

        if new is None or (R.parse_header_line(
                new.rstrip(b'\r\n')) is None and not val.startswith('+')):
            out.discarded = 'fault_not_taken'
            return out

        faulty = intact[:hs] + new + intact[he:]
        wk = World(scn, L)
        recs, e, x = read_all(wk, faulty, block_size=bs, actor='lenfault', **skw)
        out.absorb(wk)
        out.evals += 1
        out.faults['length_fault:' + mode] = 1

        if swallow is not None and len(recs) == i + 1 and \
           isinstance(recs[i], dict):
            # expected altered content under the known finding: intact
            # content followed by all remaining bytes, processed the same
            # way (indent-stripped / decoded) - computed by the reference
            # parser on the faulty file with EOF clamping
            swallow['expect'] = swallowed_content(ref[i], faulty, hs, L)

        # with length beyond EOF on the final section the reader may yield
        # the section (short read): its options carry the perturbed length
        cls = judge(out, 'length-' + mode, R_full, recs, e, x, L,
                    dict(ctx, section=i, value=val), allow_length_on=allow,
                    swallow=swallow)

        if mode != 'beyond' and len(recs) > i:
            # a section whose length is not a non-negative integer must
            # never be yielded at all
            if cls in ('complete', 'prefix+eof', 'prefix+parse-error'):
                out.violate('C07.bad-length-accepted', mode,
                            {'section': i, 'value': val,
                             'yielded': len(recs)})

        out.states.add('length|%s|%s|%s' % (mode, ref[i]['type'], cls))
        out.case_key = pipe.scn_digest([fdig, 'length', i, val])
        out.nontrivial = True
        return out

    out.discarded = 'no-fault'
    return out


def swallowed_content(rec, faulty, hs, L):
    """Content the section would have if it swallowed everything up to EOF
    (reference-side computation of the known finding's shape 2)."""
    he = faulty.find(b'\n', hs) + 1
    content = faulty[he:]
    eff = rec['_eff']
    nl = R.NL(rec['_kind'], eff)
    ind = rec['options'].get('indent') if rec['type'] == 'preamble' else None

    if ind:
        lines = []

        for l in R.split_keep(content, nl):
            k = 0

            while k < ind and l[k:k + 1] == b' ':
                k += 1

            lines.append(l[k:])

        content = b''.join(lines)

    if rec['type'] == 'preamble' and eff:
        try:
            return content.decode(eff)
        except UnicodeDecodeError:
            return None

    return content
