"""C01 — streaming write -> read round trip (fault-free class).

1-3 pipelines (pydiffx writer -> sim storage -> pydiffx reader), stepped by
the seeded schedule, each reader under its own read-ahead block size and
stream kind.  Oracle: the call log (reference records), not the bytes.
"""

from dsim import gen, pipe
from dsim import refmodel as R

ID = 'C01'
LEVEL = 'exploration'
CLASSES = [('fault_free', 1)]
RULE = ('seeded writer call histories (0-1 main preamble/meta, 1..3 changes, '
        '1..3 files, per-call encoding override from 23 stateless codecs, '
        'indent {0,1,2,4,7,40,default}, line_endings {unset,unix,dos}, '
        'hostile text alphabet) in 1-3 interleaved pipelines, 12 % of the '
        'readers following their file while it is written; non-trivial = '
        '>= 3 written sections and >= 1 content section with a non-default '
        'knob (own encoding / indent != 4 / explicit line_endings / '
        'non-utf-8 effective encoding); distinct = distinct digest of the '
        'actor list')
ASSUMPTIONS = [
    'short reads on the content read, short writes and non-seekable inputs '
    'are outside the claim',
    'texts contain no lone surrogates; metadata is JSON-native (str keys, '
    'finite floats); codecs are the 23 stateless ones of the catalogue under '
    'their canonical spelling (other spellings: C15)',
    'indent passed as an int >= 0 (explicit None is not generated)',
]
STATE_MEASURE = ('distinct (previous section, section written, effective '
                 'encoding, indent class, line-ending class) tuples')


def gen_pipelines(rng, tier, npipes=None, big=False, pool=None, p_enc=0.4):
    deep = tier == 'thorough'
    n = npipes or rng.weighted([(6, 1), (3, 2), (1, 3)] if not deep else
                               [(4, 1), (3, 2), (2, 3), (1, 5)])
    actors = []
    ids = []
    follows = False

    for p in range(n):
        main, ops = gen.gen_history(rng, pool=pool, p_enc=p_enc, big=big,
                                    max_changes=5 if deep else 3,
                                    max_files=5 if deep else 3)
        wid = 'P%d' % (p + 1)
        rid = 'R%d' % (p + 1)
        fname = 'f%d' % (p + 1)
        wspec = {'id': wid, 'kind': 'writer', 'file': fname,
                 'main_encoding': main, 'ops': ops}

        if main == 'utf-8' and rng.chance(0.5):
            del wspec['main_encoding']      # the constructor's default

        if rng.chance(0.04):
            wspec['write_returns_none'] = True  # a sink that returns nothing
        elif rng.chance(0.04):
            wspec['raw_sink'] = True        # an unbuffered (raw) sink

        if rng.chance(0.05):
            wspec['subclassed'] = True

            if rng.chance(0.5):
                wspec['indent_attr'] = rng.choice([0, 2, 8])

                for o in ops:
                    if o['op'] == 'write_preamble':
                        o.setdefault('indent', rng.choice(
                            [4, wspec['indent_attr']]))

                        if rng.chance(0.5):
                            o['indent'] = wspec['indent_attr']

        if rng.chance(0.08):
            # a second, unrelated writer alive and used alternately
            wspec['shadow'] = rng.below(50)

        actors.append(wspec)
        r = {'id': rid, 'kind': 'reader', 'file': fname}
        k = rng.below(10)

        if k < 5:
            r['block_size'] = rng.choice([1, 2, 3, 5, 7, 13, 16, 31, 64, 95,
                                          97, 128, 191, 1000, 100000])

        r['stream'] = rng.weighted([(6, 'sim'), (2, 'bytesio'),
                                    (2, 'buffered')] if rng.chance(0.85)
                                   else [(1, 'minimal'), (1, 'gzip'),
                                         (1, 'mmap'), (1, 'spooled'), (1, 'file'),
                                         (1, 'gzipfile'), (1, 'rawfile'),
                                         (1, 'fdfile')])

        if r['stream'] == 'buffered':
            r['buf'] = rng.choice([1, 2, 7, 64, 8192])

        r.update(gen.gen_stream_extras(rng))

        if rng.chance(0.12) and not big:
            # a consumer that follows the file while it is being written
            # (one long-lived reader, the producer's sections arriving
            # between its records)
            r = {'id': rid, 'kind': 'reader', 'file': fname, 'follow': True}
            follows = True

            if rng.chance(0.5):
                r['block_size'] = rng.choice([1, 7, 64, 95, 97, 1000])

        actors.append(r)
        ids.append((wid, len(ops) + 1))
        ids.append((rid, len(ops) + 4))

    sched = []

    if n > 1 or follows or rng.chance(0.3):
        pool_ids = []

        for aid, k in ids:
            pool_ids.extend([aid] * k)

        rng.shuffle(pool_ids)
        sched = pool_ids

    return actors, sched


def generate(rng, tier, cls):
    big = rng.chance(0.05)
    actors, sched = gen_pipelines(rng, tier, big=big)
    return {'actors': actors, 'schedule': sched, 'faults': []}


def op_state(prev, rec):
    o = rec['options']
    ind = o.get('indent')
    return '%s>%s|%s|%s|%s' % (
        prev, rec['section'], rec.get('_eff'),
        'd' if ind is None else ('0' if ind == 0 else
                                 ('4' if ind == 4 else 'n')),
        o.get('line_endings'))


def nontrivial_model(m):
    if len(m.records) < 3:
        return False

    for r in m.records:
        if '_plain' in r:
            o = r['options']

            if 'encoding' in o or o.get('indent', 4) != 4 or \
               r['_eff'] not in (None, 'utf-8'):
                return True

    return False


def execute(scn, L):
    out = pipe.Outcome()
    actors = []

    for a in scn.get('actors', ()):
        if a.get('kind') == 'writer':
            a = pipe.effective_writer_spec(a)

            if a is None:
                out.discarded = 'outside-domain'
                return out

        actors.append(a)

    w = pipe.make_world(scn, L, actors)
    w.run()
    out.absorb(w)
    out.case_key = pipe.scn_digest(actors)
    writers = {a.spec['file']: a for a in w.actors.values()
               if a.kind == 'writer'}

    for a in w.actors.values():
        if a.kind != 'reader':
            continue

        wa = writers.get(a.spec['file'])

        if wa is None or a.it is None:
            continue

        m, acc = pipe.model_from_calls(wa)

        if m is None:
            out.probe('writer_unusable:' + acc)
            continue

        if len(acc) != len(wa.ops):
            # every op left after filtering is well ordered and has valid
            # arguments (text encodable in its effective codec, JSON-native
            # metadata): the property quantifies over all of them, so a
            # writer that refuses one cannot round-trip it
            bad = [c for c in wa.calls if c['outcome'] == 'raise'][0]
            out.violate('C01.writer-rejects-valid-call', '%s:%s' % (
                bad['op'], (bad.get('exc') or {}).get('type')),
                {'op': wa.ops[bad['i']], 'exc': bad.get('exc')})

        pipe.check_calllog_roundtrip(out, 'e2e', m, acc, a.records, a.end,
                                     a.exc_info)
        prev = None

        for r in m.records:
            out.states.add(op_state(prev, r))
            prev = r['section']

        if nontrivial_model(m):
            out.nontrivial = True

        if getattr(a, 'followed_live', 0) >= 2:
            out.probe('records_read_while_producer_still_writing')

        if a.handle is not None and a.spec.get('block_size') and \
           a.handle.max_read and a.spec['block_size'] < 96:
            out.probe('small_block_reader')

        encs = [r.get('_eff') for r in m.records if '_plain' in r]

        if any(e and e.startswith(('utf-16', 'utf-32')) and
               not e.endswith(('le', 'be')) for e in encs):
            out.probe('bom_codec_content')

        secs = [r['section'] for r in m.records]
        ch = [i for i, r in enumerate(m.records)
              if r['section'] == '.change']

        if len(ch) >= 2 and 'encoding' in m.records[ch[0]]['options'] and \
           'encoding' not in m.records[ch[1]]['options']:
            out.probe('second_change_after_change_with_own_encoding')

    if len([a for a in w.actors.values() if a.kind == 'writer']) > 1:
        out.probe('interleaved_pipelines')

    return out
