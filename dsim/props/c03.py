"""C03 — the reader yields exactly what the specification says (files from a
foreign producer; single spec defects).

Class A (no fault): a foreign-producer stub stores a well-formed file with
drawn variations (option order, dropped optional options, blank lines, CRLF
headers, JSON styles, raw non-ASCII JSON); records must equal the reference
parse (id, level, type, logical line, options with integers converted,
content).
Class B (spec_defect): exactly one defect from the statement's catalogue is
injected into the stored copy.  The defect is first shown to the reference
parser: the run counts only if the reference rejects *that* section for
*that* reason ("the fault took").  Then: records before the offending section
equal the reference prefix, followed by DiffXParseError whose linenum lies in
the offending section's logical span.
"""

from dsim import gen, pipe
from dsim import refmodel as R

ID = 'C03'
LEVEL = 'exploration'
CLASSES = [('wellformed', 4), ('writer_file', 2), ('spec_defect', 5)]
RULE = ('seeded foreign-producer files (13+ encodings, shuffled options, '
        'optional options dropped incl. the main encoding, blank lines, CRLF '
        'headers, five JSON styles) read under drawn block sizes; class B '
        'adds one defect from {version unsupported/missing, length missing, '
        'content not ending in its newline, format != json, invalid JSON, '
        'unknown line_endings}; non-trivial = >= 4 sections and (class A) at '
        'least one variation from canonical form or (class B) the defect '
        'took per the reference parser; distinct = digest of the stored '
        'bytes + fault')
ASSUMPTIONS = [
    'line_endings is omitted by the foreign producer only where byte-level '
    'first-line detection agrees with the intended kind (spec silent on '
    'code-unit alignment)',
    'lines with fewer leading spaces than indent are not generated',
    'option values where Python int() and the integer grammar -?[0-9]+ '
    'disagree (1_0) are not generated',
]
STATE_MEASURE = ('distinct (section id, effective encoding, declared '
                 'line_endings?, indent class, defect kind) tuples')

DEFECTS = ['version_bad', 'version_missing', 'no_length', 'no_newline',
           'format', 'json', 'json_bytes', 'le']
EXPECT_KIND = {
    'version_bad': ('version',), 'version_missing': ('version',),
    'no_length': ('length',), 'no_newline': ('newline',),
    'format': ('format',), 'json': ('json',), 'le': ('line_endings',),
    'json_bytes': ('json', 'decode'),
}


def unit(ch, eff):
    """Encoding of `ch` when it follows other text (no BOM)."""
    e = eff or 'ascii'
    return ('a' + ch).encode(e)[len('a'.encode(e)):]


def gen_defect(rng, data):
    """Returns (fault dict, section index, defect kind) or None."""
    spans = []

    try:
        recs = R.ref_parse(data, spans)
    except R.RefReject:
        return None

    contents = [i for i, r in enumerate(recs) if '_eff' in r]
    metas = [i for i in contents if recs[i]['type'] == 'meta']
    kind = rng.choice(DEFECTS)

    if kind == 'version_bad':
        return ({'kind': 'set_opt', 'section': 0, 'key': 'version',
                 'value': rng.choice(['2.0', '1', 'abc', '1.0.1', '10'])},
                0, kind)
    elif kind == 'version_missing':
        return ({'kind': 'set_opt', 'section': 0, 'key': 'version',
                 'value': None}, 0, kind)

    if not contents:
        return None

    if kind == 'no_length':
        i = rng.choice(contents)
        return ({'kind': 'set_opt', 'section': i, 'key': 'length',
                 'value': None}, i, kind)
    elif kind == 'no_newline':
        i = rng.choice(contents)
        eff = recs[i]['_eff']
        x = unit('x', eff)

        if len(x) != len(unit('\n', eff)):
            return None

        nlb = R.NL(recs[i].get('_kind') or 'unix', eff)

        if rng.chance(0.12):
            # no content at all (length=0): nothing that could end in a
            # newline
            return ({'kind': 'empty_content', 'section': i}, i, kind)

        cr = unit('\r', eff)

        if nlb == cr + unit('\n', eff) and rng.chance(0.3):
            # a CRLF text that goes on with a lone CR after its last line
            return ({'kind': 'append_fragment', 'section': i,
                     'hex': cr.hex()}, i, kind)

        if len(nlb) > 1 and rng.chance(0.4):
            # only a fragment of the final newline is there (its last 1 ..
            # len-1 bytes are missing, the length says so)
            return ({'kind': 'shorten', 'section': i,
                     'n': rng.randint(1, len(nlb) - 1)}, i, kind)

        return ({'kind': 'tail_byte', 'section': i, 'hex': x.hex()}, i, kind)
    elif kind == 'le':
        i = rng.choice(contents)
        return ({'kind': 'set_opt', 'section': i, 'key': 'line_endings',
                 'value': rng.choice(['mac', 'DOS', 'crlf', 'Unix', 'lf'])},
                i, kind)

    if not metas:
        return None

    i = rng.choice(metas)

    if kind == 'format':
        return ({'kind': 'set_opt', 'section': i, 'key': 'format',
                 'value': rng.choice(['yaml', 'xml', 'JSON', 'json5'])},
                i, kind)
    elif kind == 'json_bytes':
        # metadata whose bytes are not text in the encoding in effect (or,
        # with no encoding anywhere, in any encoding JSON allows)
        cands = [j for j in metas if recs[j]['_eff'] in
                 (None, 'utf-8', 'ascii')]

        if not cands:
            return None

        i = rng.choice(cands)
        hs, he, ce = spans[i]
        k = data.find(b'"', he, ce)

        if k < 0 or k + 1 >= ce:
            return None

        return ({'kind': 'content_bytes', 'section': i, 'off': k + 1 - he,
                 'hex': rng.choice(['ff', 'fe', '80', 'c0'])}, i, kind)
    else:
        eff = recs[i]['_eff']
        hs, he, ce = spans[i]
        ob = unit('{', eff or 'utf-8')
        cb = unit('}', eff or 'utf-8')
        k = data.find(ob, he, ce)

        if k < 0 or len(ob) != len(cb):
            return None

        sp = unit(' ', eff or 'utf-8')
        k2 = data.rfind(cb, he, ce)

        if k2 > k and len(sp) == len(cb) and rng.chance(0.5):
            # the document is never closed: the error is found at the very
            # end of the content
            return ({'kind': 'content_bytes', 'section': i, 'off': k2 - he,
                     'hex': sp.hex()}, i, kind)

        return ({'kind': 'content_bytes', 'section': i, 'off': k - he,
                 'hex': cb.hex()}, i, kind)


def generate(rng, tier, cls):
    if cls == 'writer_file':
        # files from pydiffx's own writer are well-formed files too
        main, ops = gen.gen_history(rng, big=rng.chance(0.05))
        r = {'id': 'R1', 'kind': 'reader', 'file': 'f1'}

        if rng.chance(0.5):
            r['block_size'] = rng.choice([1, 2, 5, 13, 64, 95, 97, 200])

        return {'actors': [{'id': 'P1', 'kind': 'writer', 'file': 'f1',
                            'main_encoding': main, 'ops': ops}, r],
                'schedule': [], 'faults': []}

    spec = gen.gen_foreign(rng, big=rng.chance(0.05), long_opts=True,
                           unknown_labels=True)
    r = {'id': 'R1', 'kind': 'reader', 'file': 'f1'}

    if rng.chance(0.5):
        r['block_size'] = rng.choice([1, 2, 5, 13, 64, 95, 97, 200, 100000])

    r['stream'] = rng.weighted([(7, 'sim'), (1, 'bytesio'), (2, 'buffered')]
                               if rng.chance(0.85) else
                               [(1, 'minimal'), (1, 'gzip'), (1, 'mmap'),
                                (1, 'spooled'), (1, 'file'),
                                         (1, 'gzipfile'), (1, 'rawfile'),
                                         (1, 'fdfile')])

    if r['stream'] == 'buffered':
        r['buf'] = rng.choice([1, 3, 64, 8192])

    r.update(gen.gen_stream_extras(rng))

    scn = {'actors': [{'id': 'F1', 'kind': 'raw', 'file': 'f1',
                       'foreign': spec}, r],
           'schedule': [], 'faults': [],
           'noise': pipe.gen_noise(rng, 0.15)}

    if cls == 'spec_defect':
        d = gen_defect(rng, R.render_foreign(spec))

        if d is not None:
            f, i, kind = d
            f['file'] = 'f1'
            f['defect'] = kind
            f['expect_section'] = i
            scn['faults'] = [f]

    return scn


def state_of(rec, defect=None):
    o = rec['options']
    ind = o.get('indent')
    return '%s|%s|%s|%s|%s' % (
        rec['section'], rec.get('_eff'),
        'decl' if 'line_endings' in o else 'det',
        'n' if ind is None else ('0' if ind == 0 else 'i'), defect)


def execute(scn, L):
    out = pipe.Outcome()
    pipe.run_noise(scn, L, out)
    actors = []

    for a in scn.get('actors', ()):
        if a.get('kind') == 'writer':
            a = pipe.effective_writer_spec(a)

            if a is None:
                out.discarded = 'outside-domain'
                return out

        actors.append(a)

    w = pipe.make_world(scn, L, actors)
    w.run()
    out.absorb(w)
    readers = [a for a in w.actors.values() if a.kind == 'reader']

    if not readers or readers[0].it is None:
        out.discarded = 'no-reader'
        return out

    ra = readers[0]
    intact = w.visible(ra.spec['file'])
    seen = ra.data
    faults = [f for f in scn.get('faults', ()) if 'defect' in f]
    out.case_key = pipe.scn_digest([seen.hex(), ra.spec.get('block_size'),
                                    ra.spec.get('stream')])

    spans = []

    try:
        want_intact = R.ref_parse(intact, spans)
    except R.RefReject as e:
        out.discarded = 'stored-file-not-wellformed:' + e.kind
        return out
    except Exception:
        out.discarded = 'reference-parser-failed'
        return out

    if not faults or seen == intact:
        if faults:
            out.probe('fault_not_taken')

        # class A
        if ra.end != 'eof':
            out.violate('C03.wellformed-rejected', '%s:%s' % (
                ra.end, (ra.exc_info or {}).get('type')),
                {'exc': ra.exc_info, 'yielded': len(ra.records),
                 'sections': len(want_intact)})
        elif len(ra.records) != len(want_intact):
            out.violate('C03.count', 'wellformed',
                        {'yielded': len(ra.records),
                         'sections': len(want_intact)})
        else:
            pipe.check_records_against_ref(out, 'C03.record', 'wellformed',
                                           ra.records, want_intact)

        for r in want_intact:
            out.states.add(state_of(r))

        canonical = b''.join(
            R.header(r['section'], r['options']) + intact[he:ce]
            for r, (hs, he, ce) in zip(want_intact, spans))

        if len(want_intact) >= 4 and (intact != canonical or
                                      scn.get('class') == 'writer_file'):
            out.nontrivial = True

        if ra.spec.get('block_size') and ra.spec['block_size'] < 96:
            out.probe('small_block')

        if intact.split(b'\n', 1)[0].endswith(b'\r'):
            out.probe('crlf_headers')

        if b'\n\n#' in intact or b'\n\r\n#' in intact:
            out.probe('blank_lines_between_sections')

        if want_intact and 'encoding' not in want_intact[0]['options']:
            out.probe('no_main_encoding')

        return out

    # class B
    f = faults[0]
    kind = f['defect']
    idx = int(f['expect_section'])
    partial = []

    try:
        R.ref_parse(seen, None, partial)
        out.discarded = 'fault_not_taken:accepted'
        return out
    except R.RefReject as e:
        if e.index != idx or e.kind not in EXPECT_KIND.get(kind, ()):
            out.discarded = 'fault_not_taken:%s' % e.kind
            return out

        span = e.span
    except Exception:
        out.discarded = 'reference-parser-failed'
        return out

    out.probe('defect:' + kind)
    out.nontrivial = True

    if idx < len(want_intact):
        out.states.add(state_of(want_intact[idx], kind))

    if ra.end == 'eof':
        out.violate('C03.defect-accepted', kind,
                    {'yielded': len(ra.records), 'offending': idx})
        return out

    if ra.end != 'raise' or not ra.exc_info['parse_error']:
        out.violate('C03.defect-other-exception', '%s:%s:%s' % (
            kind, ra.end, (ra.exc_info or {}).get('type')),
            {'exc': ra.exc_info})
        return out

    if len(ra.records) != idx:
        out.violate('C03.defect-prefix', '%s:count' % kind,
                    {'yielded': len(ra.records), 'offending': idx})
        return out

    if not pipe.check_records_against_ref(out, 'C03.defect-prefix', kind,
                                          ra.records, partial[:idx]):
        return out

    ln = ra.exc_info.get('linenum')

    if not isinstance(ln, int) or isinstance(ln, bool) or \
       not (span[0] <= ln <= span[1]):
        out.violate('C03.defect-linenum', kind,
                    {'linenum': ln, 'span': list(span),
                     'msg': ra.exc_info.get('msg')})

    return out
