"""C04 — encoding inheritance follows nesting; siblings never leak.

Nesting histories (main -> change -> file -> file -> change -> ...) with each
container and each preamble/meta independently declaring or omitting an
encoding, encodings chosen so that a wrong choice is *visible* (utf-16 vs
utf-8 vs cp037 vs utf-32-be ..., non-ASCII text).  Three comparisons per run
so that "reader and writer agree" cannot be satisfied by two matching bugs:
  writer  : pydiffx writer bytes      vs reference serializer
  reader  : pydiffx reader on the *reference-serialized* file vs the model
  e2e     : pydiffx writer -> pydiffx reader vs the call log
"""

from dsim import gen, pipe
from dsim import refmodel as R

ID = 'C04'
LEVEL = 'exploration'
CLASSES = [('nesting', 1)]
RULE = ('seeded nesting histories of up to 12 containers, every container '
        'and every preamble/meta independently declaring or omitting an '
        'encoding drawn from codecs that disagree visibly on non-ASCII '
        'text; non-trivial = at least one content section that omits its '
        'encoding below a container whose effective encoding differs from '
        'the main one, or after a sibling that declared one; distinct = '
        'distinct digest of the call history')
ASSUMPTIONS = [
    'codecs under their canonical spelling (spellings: C15)',
    'the reference model reads "nearest enclosing container that declares '
    'one" from docs/spec/encodings.rst rule 3',
]
STATE_MEASURE = ('distinct (levels popped, new container declares?, '
                 'enclosing declares?) transitions and distinct scope-stack '
                 'shapes (declared/undeclared per level)')

NONASCII = ['é', 'Ж', '日本', '€', 'ÿ', '†']


def gen_nesting(rng):
    pool = gen.ENCS_VISIBLE
    main = rng.choice(pool)
    ops = []
    scope = [main]
    ncont = rng.randint(2, 12)
    level = 0
    have_meta = False
    change_has_meta = False

    def text(eff):
        parts = [p for p in NONASCII if gen.enc_ok(p, eff)] or ['e']
        return rng.choice(parts) + gen.gen_text(rng, eff, 3) + \
            rng.choice(parts)

    def enc_choice(p=0.45):
        return rng.choice(pool) if rng.chance(p) else None

    def content(name):
        op = {'op': 'write_' + name}
        e = enc_choice(0.3)

        if e:
            op['encoding'] = e

        eff = e or scope[-1]

        if name == 'preamble':
            op['text'] = text(eff)

            if e and rng.chance(0.02):
                # far beyond any block size the writer may encode in
                op['text'] = op['text'] + '\n' + \
                    (text(eff) + '\n') * rng.choice([9000, 14000])

            if rng.chance(0.5):
                op['indent'] = rng.choice([0, 2, 4])
        elif name == 'meta':
            op['metadata'] = {text('utf-8'): text('utf-8')}
        else:
            op['content_hex'] = text(e or 'utf-8').encode(e or 'utf-8').hex()

        ops.append(op)

    if rng.chance(0.4):
        content('preamble')

    if rng.chance(0.4):
        content('meta')

    for _ in range(ncont):
        if level == 0 or (level >= 2 and have_meta and rng.chance(0.35)) or \
           (level == 1 and change_has_meta and rng.chance(0.25)):
            # (a change holding only metadata may be followed by a change)
            name, lvl = 'change', 1
        elif level == 1:
            name, lvl = 'file', 2
        else:
            if not have_meta:
                content('meta')

            name, lvl = 'file', 2

        e = enc_choice()
        op = {'op': 'new_' + name}

        if e:
            op['encoding'] = e

        ops.append(op)
        del scope[lvl:]
        scope.append(e or scope[-1])
        level = lvl
        have_meta = False

        if name == 'change':
            if rng.chance(0.6):
                content('preamble')

            change_has_meta = False

            if rng.chance(0.5):
                content('meta')
                change_has_meta = True
        else:
            content('meta')
            have_meta = True

            if rng.chance(0.4):
                content('diff')

    return main, ops


def add_rejected_calls(rng, ops):
    """Content calls that must be rejected (empty text, unencodable text, bad
    line_endings), each declaring an encoding of its own: a rejected call
    must not leave that encoding behind."""
    out = []

    for op in ops:
        out.append(op)

        if rng.chance(0.25):
            e = rng.choice(gen.ENCS_VISIBLE)
            out.append(rng.choice([
                {'op': 'write_preamble', 'text': '', 'encoding': e},
                {'op': 'write_meta', 'metadata': {}, 'encoding': e},
                {'op': 'write_preamble', 'text': 'x', 'encoding': e,
                 'line_endings': 'mac'},
                {'op': 'write_preamble', 'text': '\u2603 \u65e5',
                 'encoding': 'ascii'},
                {'op': 'write_meta', 'metadata': {'k': 1}, 'encoding': e,
                 'meta_format': 'yaml'}]))

    return out


def generate(rng, tier, cls):
    main, ops = gen_nesting(rng)

    if rng.chance(0.3):
        ops = add_rejected_calls(rng, ops)
    r = {'id': 'R1', 'kind': 'reader', 'file': 'f1'}

    if rng.chance(0.3):
        r['block_size'] = rng.choice([1, 7, 64, 97, 1000])

    r.update(gen.gen_stream_extras(rng))

    if rng.chance(0.15):
        r['mutate'] = rng.randint(1, 5)

    wspec = {'id': 'P1', 'kind': 'writer', 'file': 'f1',
             'main_encoding': main, 'ops': ops}

    if rng.chance(0.12):
        wspec['shadow'] = rng.below(50)

    if rng.chance(0.05):
        wspec['subclassed'] = True

    return {'actors': [wspec, r],
            'schedule': [], 'faults': [],
            # the reader of the writer's file and the reader of the
            # reference file step alternately: two iterations alive at once
            'interleave': rng.chance(0.5)}


def scope_states(main, ops, out):
    """Transitions of the encoding scope stack (the state measure), and the
    non-triviality rule."""
    declared = [True]
    eff = [main]
    level = 0
    sibling_declared = {1: False, 2: False}
    nontrivial = False

    for op in ops:
        name = op['op']

        if name in ('new_change', 'new_file'):
            lvl = 1 if name == 'new_change' else 2
            popped = level - lvl + 1
            d = op.get('encoding') is not None
            out.states.add('t:%d:%s:%s' % (popped, d,
                                           declared[min(lvl, len(declared))
                                                    - 1]))

            if popped >= 2:
                out.probe('pop_two_levels')

            if popped >= 1 and not d and sibling_declared[lvl]:
                out.probe('undeclared_after_declared_sibling')

            sibling_declared[lvl] = d

            if lvl == 1:
                sibling_declared[2] = False

            del declared[lvl:]
            del eff[lvl:]
            declared.append(d)
            eff.append(op.get('encoding') or eff[-1])
            level = lvl
            out.states.add('s:' + ''.join('D' if x else 'u'
                                          for x in declared))
        elif name in ('write_preamble', 'write_meta'):
            if op.get('encoding') is None and (eff[-1] != main or
                                               any(sibling_declared.values())):
                nontrivial = True
                out.probe('inherits_non_main_or_after_sibling')
        elif name == 'write_diff':
            if op.get('encoding') is None:
                out.probe('diff_without_own_encoding')

    return nontrivial


def execute(scn, L):
    out = pipe.Outcome()
    wspec = None
    rspec = None

    for a in scn.get('actors', ()):
        if a.get('kind') == 'writer' and wspec is None:
            wspec = pipe.effective_writer_spec(a)

            if wspec is None:
                out.discarded = 'outside-domain'
                return out
        elif a.get('kind') == 'reader' and rspec is None:
            rspec = a

    if wspec is None or rspec is None:
        out.discarded = 'no-pipeline'
        return out

    # the reference-serialized twin file, read by a second pydiffx reader
    _, m0 = gen.filter_ops(wspec['main_encoding'], wspec['ops'])
    rspec = dict(rspec, file=wspec['file'])
    twin_file = wspec['file'] + '.ref'
    # the real writer also receives the calls the model rejects (wrong
    # order / invalid arguments): they must change nothing
    raw = [a for a in scn.get('actors', ()) if a.get('kind') == 'writer'][0]
    wreal = dict(wspec, ops=[op for op in raw.get('ops', ())
                             if isinstance(op, dict) and 'op' in op and
                             not R.has_tag(op)])

    if len(wreal['ops']) != len(wspec['ops']):
        out.probe('history_with_rejected_calls')

    actors = [
        wreal, rspec,
        {'id': 'REF', 'kind': 'raw', 'file': twin_file,
         'hex': m0.getvalue().hex()},
        dict(rspec, id='R-ref', file=twin_file),
    ]
    s2 = dict(scn)

    if scn.get('interleave'):
        s2['schedule'] = [wreal['id']] * (len(wreal['ops']) + 2) + \
            ['REF'] * 2 + [rspec['id'], 'R-ref'] * 400
        out.probe('readers_interleaved')

    w = pipe.make_world(s2, L, actors)
    w.run()
    out.absorb(w)
    out.case_key = pipe.scn_digest([wspec['main_encoding'], wspec['ops']])
    wa = w.actors[wspec['id']]
    ra = w.actors[rspec['id']]
    rr = w.actors['R-ref']

    # reader side alone: reference bytes -> pydiffx reader vs the model
    pipe.check_calllog_roundtrip(out, 'reader-on-ref', m0, wspec['ops'],
                                 rr.records, rr.end, rr.exc_info, prefix='C04')
    m, acc = pipe.model_from_calls(wa)

    if m is None:
        out.probe('writer_unusable:' + acc)
    else:
        # writer side alone
        pipe.check_bytes_against_model(out, 'writer', w.visible(wspec['file']),
                                       m, acc, prefix='C04')
        # end to end
        pipe.check_calllog_roundtrip(out, 'e2e', m, acc, ra.records, ra.end,
                                     ra.exc_info, prefix='C04')

        # diff sections: bytes and options untouched by any container
        # encoding (explicit, so the failure names the rule)
        for rec, got in zip(m.records, ra.records):
            if rec['type'] == 'diff' and isinstance(got, dict):
                if 'encoding' not in rec['options'] and \
                   isinstance(got.get('options'), dict) and \
                   'encoding' in got['options']:
                    out.violate('C04.diff-inherits', 'option', None)

    if scope_states(wspec['main_encoding'], wspec['ops'], out):
        out.nontrivial = True

    return out
