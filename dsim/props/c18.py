"""C18 — object-model instances are isolated and observers do not mutate.

2-4 DOM actors, each owning 1-2 trees created in every way the statement
lists (constructor defaults, add_change/add_file, repeated parses through one
shared DiffXDOMReader, repeated serialisation through one shared
DiffXDOMWriter, two parses of the same bytes), interleaved step by step by
the seeded schedule.  Mutating steps go through typed attributes *and*
through returned mutable values (tree.meta[k] = v, section.options[k] = v).
After every step: I-isolate over all other trees, over a fresh DiffX() and
over the class-level defaults; observer steps leave their own tree unchanged;
to_bytes() twice gives equal bytes.
"""

from dsim import domgen, domworld, gen, pipe
from dsim.actors import LOAD_STREAMS

ID = 'C18'
LEVEL = 'exploration'
CLASSES = [('interleaved', 1)]
TIERS = {'quick': {'chunk': 25}}
RULE = ('seeded histories of 2-4 actors x 1-2 live trees (20-80 interleaved '
        'steps): constructing, add_change/add_file, typed assignments, '
        'mutation through returned dicts, to_bytes, write through a shared '
        'DiffXDOMWriter, parses through a shared DiffXDOMReader / from_bytes '
        '/ from_stream (incl. two parses of the same bytes), ==, repr, '
        'iteration; non-trivial = >= 2 actors that both mutated a tree while '
        '>= 2 trees were alive; distinct = digest of actors + schedule')
ASSUMPTIONS = [
    'every value handed to the API is a fresh deep copy, so aliasing '
    'observed afterwards was created by the library (the setters store '
    'references by design)',
    'generate_stats is a mutator of its own tree and is exercised in C13',
]
STATE_MEASURE = ('distinct adjacent (op kind, op kind) pairs executed by '
                 'different actors, and distinct creation routes of the '
                 'trees alive at a mutation')

MUTATORS = ('set', 'set_option', 'meta_set', 'meta_nested', 'add_change',
            'add_file', 'generate_stats')


def gen_actor(rng, aid, ntrees, others):
    ops = []
    names = ['%s.T%d' % (aid, i + 1) for i in range(ntrees)]

    for tn in names:
        if rng.chance(0.2):
            # a tree parsed from another producer's file: bare headers (only
            # length), options absent that the object model defaults
            from dsim import refmodel as R
            spec = gen.gen_foreign(rng, pool=gen.ENCS_COMMON, max_changes=2,
                                   max_files=2, meta_le=False,
                                   p_main_none=0.3)
            ops.append({'op': 'parse', 'tree': tn,
                        'hex': R.render_foreign(spec).hex(),
                        'via': rng.choice(['shared_reader', 'from_bytes']),
                        'stream': rng.choice(LOAD_STREAMS)})
        elif rng.chance(0.7) or not others:
            ops.extend(domgen.gen_tree_ops(rng, tn, max_changes=2,
                                           max_files=2, full=True,
                                           enc_pool=gen.ENCS_COMMON))
        else:
            ops.append({'op': 'parse', 'tree': tn,
                        'from': rng.choice(others),
                        'via': rng.choice(['shared_reader', 'from_bytes',
                                           'from_stream']),
                        'stream': rng.choice(LOAD_STREAMS)})

    if rng.chance(0.08):
        # a parsed tree with changes that hold no files (metadata only),
        # one of which then gets a file
        tn = names[0]
        ops.append({'op': 'parse', 'tree': tn, 'hex': (
            b'#diffx: encoding=utf-8, version=1.0\n#.change:\n'
            b'#..meta: format=json, length=9\n{"k": 1}\n#.change:\n'
            b'#..meta: format=json, length=9\n{"k": 2}\n#.change:\n'
            b'#..preamble: length=2\nx\n').hex(),
            'via': rng.choice(['shared_reader', 'from_bytes',
                               'from_stream'])})
        ops.append({'op': 'add_file', 'tree': tn, 'change': rng.below(3),
                    'attrs': {'meta': {'p': 1}}})

    if rng.chance(0.4):
        # several sections carrying the *same* metadata value (each handed
        # over as its own deep copy): a parse of such a tree must still give
        # every section its own objects
        same = {'path': {'old': 'a', 'new': 'b'}, 'stats': {'n': [1, 2]}}
        tn0 = names[0]

        for path in ([], [0], [0, 0], [0, 1], [1, 0]):
            ops.append({'op': 'set', 'tree': tn0, 'path': path,
                        'attr': 'meta', 'value': same})

    if rng.chance(0.15):
        # files with identical diffs (here and in other actors' trees, which
        # draw from the same small pool), statistics generated, then one
        # file's statistics edited in place
        tn0 = names[0]
        d = {'$bytes': domgen.COMMON_DIFFS[rng.below(2)].hex()}

        for path in ([0, 0], [0, 1], [1, 0]):
            ops.append({'op': 'set', 'tree': tn0, 'path': path,
                        'attr': 'diff', 'value': d})

        ops.append({'op': 'generate_stats', 'tree': tn0, 'path': []})
        ops.append({'op': 'meta_nested', 'tree': tn0, 'path': [0, 0],
                    'prefer': 'stats', 'key': 'insertions',
                    'value': 12345})
        ops.append({'op': 'generate_stats', 'tree': tn0,
                    'path': rng.choice([[0, 1], [1, 0], [0]])})

    if rng.chance(0.08):
        # a change whose statistics carry a custom nested entry, tree-level
        # statistics generated from scratch, then that entry edited in place
        tn0 = names[0]
        ops.append({'op': 'set', 'tree': tn0, 'path': [0], 'attr': 'meta',
                    'value': {'stats': {'per-author': {'ann': [1, 2]},
                                        'insertions': 1}}})
        ops.append({'op': 'set', 'tree': tn0, 'path': [], 'attr': 'meta',
                    'value': {'title': 't'}})
        ops.append({'op': 'generate_stats', 'tree': tn0, 'path': []})
        ops.append({'op': 'meta_nested', 'tree': tn0,
                    'path': rng.choice([[0], []]), 'prefer': 'stats',
                    'key': 'zz', 'value': 7, 'deep': rng.chance(0.7)})

    if rng.chance(0.08):
        # metadata assigned as an empty dict (zero keys), then edited in
        # place: nobody else's metadata may change with it
        tn0 = names[0]
        path = rng.choice([[], [0], [0, 0]])
        ops.append({'op': 'set', 'tree': tn0, 'path': path, 'attr': 'meta',
                    'value': {}})
        ops.append({'op': 'meta_set', 'tree': tn0, 'path': path,
                    'key': 'added-later', 'value': 1})
        ops.append({'op': 'new_tree', 'tree': tn0 + '.fresh', 'attrs': {}})

    if rng.chance(0.06) and others:
        tn0 = names[0]
        ops.append({'op': 'set_option', 'tree': tn0,
                    'path': rng.choice([[], [0]]),
                    'sec': rng.choice(['preamble', 'self', 'meta']),
                    'key': rng.choice(['indent', 'encoding', 'mimetype']),
                    'value': None})
        ops.append({'op': rng.choice(['eq', 'ne']), 'a': tn0,
                    'b': rng.choice(others)})
        ops.append({'op': 'eq', 'a': tn0, 'b': tn0})

    if rng.chance(0.04):
        # a preamble / diff beyond 64 KiB with no line endings declared,
        # then serialised (observers must leave it that way)
        tn0 = names[0]
        ops.append({'op': 'set', 'tree': tn0, 'path': rng.choice([[], [0]]),
                    'attr': 'preamble',
                    'value': rng.choice(['line\n', 'l\r\n']) * 17000})
        ops.append({'op': 'to_bytes', 'tree': tn0})
        ops.append({'op': 'write_shared', 'tree': tn0})

    n = rng.randint(6, 24)
    everyone = names + others

    for _ in range(n):
        tn = rng.choice(names)
        k = rng.below(20)

        if k < 5:
            path = rng.choice([[], [0], [0, 0], [1], [0, 1], [1, 0]])
            kind = domgen.node_kind(path)
            attr = rng.choice(sorted(domgen.ATTRS[kind]))
            ops.append({'op': 'set', 'tree': tn, 'path': path, 'attr': attr,
                        'value': domgen.valid_value(rng, kind, attr,
                                                    gen.ENCS_COMMON)})
        elif k < 7:
            path = rng.choice([[], [0], [0, 0], [1]])
            ops.append({'op': 'meta_set', 'tree': tn, 'path': path,
                        'key': rng.choice(['k', 'note', 'x y', 'path']),
                        'value': gen.gen_json_value(rng, 1)})
        elif k < 8 and rng.chance(0.3):
            path = rng.choice([[], [0], [0, 0], [1]])
            ops.append({'op': 'meta_set', 'tree': tn, 'path': path,
                        'key': 'by-line',
                        'value': [{'$intkeys': {'10': 'x', '2': 'y'}},
                                  {'$intkeys': {'7': [1, 2]}}]})
        elif k < 8:
            path = rng.choice([[], [0], [0, 0], [0, 1], [1], [1, 0]])
            ops.append({'op': 'meta_nested', 'tree': tn, 'path': path,
                        'key': rng.choice(['new', 'n']),
                        'value': gen.gen_json_value(rng, 2)})
        elif k < 9 and rng.chance(0.5):
            sec, key = rng.choice([('self', 'encoding'), ('meta', 'format'),
                                   ('self', 'version'),
                                   ('preamble', 'indent')])
            ops.append({'op': 'del_option', 'tree': tn,
                        'path': rng.choice([[], [0], [0, 0]])
                        if sec != 'self' or key == 'encoding' else [],
                        'sec': sec, 'key': key})
        elif k < 11:
            path = rng.choice([[], [0], [0, 0]])
            sec = rng.choice(['self', 'preamble', 'meta', 'diff'])
            key, val = rng.choice([('encoding', 'latin-1'),
                                   ('encoding', 'utf-16'),
                                   ('mimetype', 'text/markdown'),
                                   ('indent', 2), ('line_endings', 'dos'),
                                   ('type', 'binary')])
            ops.append({'op': 'set_option', 'tree': tn, 'path': path,
                        'sec': sec, 'key': key, 'value': val})
        elif k < 12:
            ops.append({'op': 'add_change', 'tree': tn, 'attrs': {}})
        elif k < 13:
            ops.append({'op': 'add_file', 'tree': tn, 'change': 0,
                        'attrs': {'meta': {'p': 1}}})
        elif k < 15:
            ops.append({'op': 'to_bytes', 'tree': tn})
        elif k < 16:
            ops.append({'op': 'write_shared', 'tree': tn})
        elif k < 17:
            if rng.chance(0.5):
                ops.append({'op': rng.choice(['eq', 'ne']), 'a': tn,
                            'b': rng.choice(everyone)})
            else:
                # a mutator of its own tree only
                ops.append({'op': 'generate_stats', 'tree': tn,
                            'path': rng.choice([[], [0], [1], [0, 0]])})
        elif k < 18 and rng.chance(0.5):
            # a file section of any tree copied into this one, then edited
            # (nested metadata in place, the diff, options)
            ops.append({'op': 'clone_file', 'tree': tn,
                        'from': rng.choice(everyone),
                        'path': rng.choice([[0, 0], [0, 1], [1, 0]]),
                        'change': rng.below(2),
                        'how': rng.choice(['deepcopy', 'deepcopy',
                                           'pickle'])})
            ops.append({'op': 'meta_nested', 'tree': tn,
                        'path': [rng.below(2), rng.below(3)],
                        'prefer': rng.choice(['stats', 'path', 'items']),
                        'key': 'zz', 'value': 7, 'deep': rng.chance(0.5)})
        elif k < 18 and rng.chance(0.3):
            # a whole tree copied over this one
            ops.append({'op': 'clone_tree', 'tree': tn,
                        'from': rng.choice(everyone),
                        'how': rng.choice(['deepcopy', 'pickle']),
                        'protocol': rng.choice([0, 2, 5])})
        elif k < 18:
            ops.append({'op': rng.choice(['repr', 'iter', 'getattrs']),
                        'tree': tn})
        else:
            ops.append({'op': 'parse', 'tree': tn,
                        'from': rng.choice(everyone),
                        'via': rng.choice(['shared_reader', 'from_bytes',
                                           'from_stream']),
                        'stream': rng.choice(LOAD_STREAMS)})

            if rng.chance(0.4):
                # ... after a parse of a damaged copy that (usually) fails
                ops.insert(len(ops) - 1,
                           {'op': 'parse', 'tree': aid + '.junk',
                            'from': rng.choice(everyone),
                            'via': 'shared_reader',
                            'cut': rng.randint(1, 4000)})

    return {'id': aid, 'kind': 'dom', 'ops': ops}, names


def generate(rng, tier, cls):
    nact = rng.randint(2, 6 if tier == 'thorough' else 4)
    actors = []
    names = []

    for i in range(nact):
        a, ns = gen_actor(rng, 'A%d' % (i + 1), rng.randint(1, 2), names)
        actors.append(a)
        names.extend(ns)

    sched = []

    for a in actors:
        sched.extend([a['id']] * len(a['ops']))

    rng.shuffle(sched)
    return {'actors': actors, 'schedule': sched, 'faults': [],
            'dom_values': rng.choice([None] * 7 + ['sub', 'same', 'same'])}


def execute(scn, L):
    out = pipe.Outcome()
    w = pipe.make_world(scn, L)
    w.run()
    out.absorb(w)
    out.case_key = pipe.scn_digest([scn.get('actors'), scn.get('schedule')])
    st = domworld.dom_state(w)
    mutators = set()
    prev = None

    for r in st.log:
        name = r['op'].get('op')

        if r['outcome'] == 'ok' and name in MUTATORS and len(st.trees) >= 2:
            mutators.add(r['actor'])

        if prev is not None and prev[0] != r['actor']:
            out.states.add('%s>%s' % (prev[1], name))

        prev = (r['actor'], name)

        if name == 'parse' and r['outcome'] == 'ok':
            out.probe('parse_via:' + r['op'].get('via', 'from_bytes'))

        if name == 'write_shared' and r['outcome'] == 'ok':
            out.probe('shared_writer_used')

    out.nontrivial = len(mutators) >= 2
    return out
