"""C06 — parse then re-serialise: byte-identical on canonical files,
idempotent on others.

An editor actor: load -> store -> load -> store.
Canonical class: every file the library itself produces (writer histories,
incl. ones that stop mid-structure) -> from_stream -> to_bytes must be the
identical bytes.
Foreign class: files from the foreign producer restricted to the variations
the statement lists (shuffled options, blank lines, CRLF headers, compact
JSON, omitted optional options - no unknown options and no line_endings on
metadata headers): if from_stream accepts, to_bytes must succeed, the
re-parsed sections must carry the same contents as the reference parse of
the original, and a second load/store must reproduce the first store's
bytes.
"""

import io

from dsim import domworld, gen, pipe
from dsim import refmodel as R
from dsim.actors import (LOAD_STREAMS, exc_summary, load_stream,
                         sized_reader_cls)
from dsim.world import SimEventCap, SimHang, SimReadHandle

ID = 'C06'
LEVEL = 'exploration'
CLASSES = [('canonical', 4), ('canonical_dom', 2), ('canonical_ref', 2),
           ('foreign', 5)]
TIERS = {'quick': {}}
RULE = ('class canonical: seeded writer histories (as C01) stored, loaded '
        'into the object model and stored again; class canonical_dom: the '
        'same for files produced by DiffX.to_bytes() of seeded trees; class '
        'canonical_ref: the canonical file of a seeded history as the '
        'reference serializer writes it (no library code produced it); '
        'class foreign: seeded '
        'foreign-producer files (shuffled options, blank lines, CRLF '
        'headers, 5 JSON styles, optional options omitted incl. the main '
        'encoding); non-trivial = >= 4 sections (canonical) / the object '
        'model accepted the file and it differs from its canonical form '
        '(foreign); distinct = digest of the stored bytes')
ASSUMPTIONS = [
    'foreign files carry no unknown options and no line_endings on metadata '
    'headers (neither is among the listed variations)',
    '"carries the same section contents" = same section ids in the same '
    'order with equal text / metadata / diff values per the reference '
    'parser',
]
STATE_MEASURE = ('distinct (class, section id, variation present: crlf / '
                 'blank / shuffled / no-main-encoding, outcome) tuples')


def generate(rng, tier, cls):
    if cls == 'canonical_dom':
        from dsim import domgen
        pool = gen.ENCS_COMMON if rng.chance(0.6) else gen.ENCS
        prod = {'id': 'P1', 'kind': 'dom', 'file': 'f1',
                'ops': domgen.gen_tree_ops(rng, 'T1', max_changes=3,
                                           max_files=3, p_set=0.5,
                                           enc_pool=pool, full=True)}
    elif cls == 'canonical_ref':
        # the canonical file of a seeded history, written by the reference
        # serializer: what the library's own writer would store (C02), but
        # produced without it
        main, ops = gen.gen_history(rng)

        if rng.chance(0.3):
            # an unindented preamble that opens with a header look-alike
            for o in ops:
                if o['op'] == 'write_preamble' and rng.chance(0.6):
                    o['indent'] = 0
                    o['text'] = rng.choice(
                        ['#..meta: format=json, length=2\n',
                         '#.change:\n', '#...diff: length=3\n',
                         '#diffx: version=1.0\n']) + \
                        (o.get('text') if isinstance(o.get('text'), str)
                         else 'x\n')

        kept, m = gen.filter_ops(main, ops)
        prod = {'id': 'P1', 'kind': 'raw', 'file': 'f1',
                'hex': m.getvalue().hex(), 'canonical_ref': True}
    elif cls == 'canonical':
        pool = None

        if rng.chance(0.3):
            # codec names as users spell them (upper case, aliases ...): a
            # canonical file keeps the spelling it was written with
            from dsim import codecs_cat
            cat = codecs_cat.catalogue()['codecs']
            pool = []

            for c in rng.sample(sorted(cat), 3):
                pool.extend(rng.sample(cat[c], min(4, len(cat[c]))))

        main, ops = gen.gen_history(rng, big=rng.chance(0.05), pool=pool,
                                    main_pool=pool)
        prod = {'id': 'P1', 'kind': 'writer', 'file': 'f1',
                'main_encoding': main, 'ops': ops}

        if rng.chance(0.1):
            prod['shadow'] = rng.below(50)
    else:
        prod = {'id': 'P1', 'kind': 'raw', 'file': 'f1',
                'foreign': gen.gen_foreign(rng, meta_le=False,
                                           p_main_none=0.08,
                                           unknown_labels=True,
                                           nonfinite=True)}

    return {'actors': [prod], 'schedule': [], 'faults': [],
            'via': rng.choice(['from_stream', 'from_stream', 'from_bytes',
                               'subclass']),
            'reuse': rng.chance(0.12),
            'inspect': rng.chance(0.25),
            'stream': rng.choice(LOAD_STREAMS),
            'block_size': rng.choice([None, None, 1, 17, 97])}


def contents(recs):
    out = []

    for r in recs:
        k = pipe.content_key(r['type'])
        out.append((r['section'], r.get(k) if k else None))

    return out


def load(L, w, data, via, bs, reuse=False, stream=None):
    if reuse:
        # one DiffXDOMReader object that already went through a parse of a
        # damaged copy (failed, or ended early)
        rd = L.DiffXDOMReader(L.DiffX)

        if bs:
            rd.reader_cls = sized_reader_cls(L, bs)

        try:
            rd.parse(SimReadHandle(w, data[:(2 * len(data)) // 3],
                                   'editor-earlier'))
        except (SimEventCap, SimHang):
            raise
        except Exception:
            pass

        h = load_stream(w, stream, data, 'editor')
        return rd.parse(h), h

    if via == 'from_bytes':
        return L.DiffX.from_bytes(data), None
    elif via == 'subclass':
        return domworld.diffx_subclass(
            L, len(data) % 2 == 0).from_bytes(data), None

    h = load_stream(w, stream, data, 'editor')

    if bs:
        rd = L.DiffXDOMReader(L.DiffX)
        rd.reader_cls = sized_reader_cls(L, bs)
        return rd.parse(h), h

    return L.DiffX.from_stream(h), h


def serialise(L, w, tree, reuse):
    if not reuse:
        return tree.to_bytes()

    # one DiffXDOMWriter object used twice: the second stream must get the
    # whole file as well
    wr = L.DiffXDOMWriter()
    wr.write_stream(tree, io.BytesIO())
    st = io.BytesIO()
    wr.write_stream(tree, st)
    return st.getvalue()


def execute(scn, L):
    out = pipe.Outcome()
    actors = []

    for a in scn.get('actors', ()):
        if a.get('kind') == 'writer':
            a = pipe.effective_writer_spec(a)

            if a is None:
                out.discarded = 'outside-domain'
                return out

        actors.append(a)

    if not actors:
        out.discarded = 'no-producer'
        return out

    canonical = actors[0].get('kind') in ('writer', 'dom') or \
        bool(actors[0].get('canonical_ref'))
    w = pipe.make_world(scn, L, actors)
    w.run()
    out.absorb(w)

    if actors[0].get('kind') == 'dom':
        # a file produced by the object model itself
        t0 = domworld.dom_state(w).trees.get('T1')

        if t0 is None:
            out.discarded = 'no-tree'
            return out

        try:
            data = t0.to_bytes()
        except Exception:
            out.discarded = 'unserialisable'
            return out

        out.probe('file_produced_by_object_model')
    else:
        data = w.visible(actors[0]['file'])
    out.case_key = pipe.scn_digest(data.hex())
    spans = []

    try:
        ref = R.ref_parse(data, spans)
    except R.RefReject as e:
        if canonical:
            # the library's own output, and the reference parser refuses it
            # (that is C02's business) - but whatever the library writes it
            # must at least be able to load again
            out.probe('own_output_not_wellformed:' + e.kind)

            try:
                load(L, w, data, scn.get('via', 'from_stream'),
                     scn.get('block_size'), stream=scn.get('stream'))
            except Exception as e2:
                es = exc_summary(e2, L)
                out.violate('C06.canonical-not-loadable', '%s:%s' % (
                    es['type'], es['func']), {'exc': es,
                                              'reference_parser': e.kind})
                return out

        out.discarded = 'stored-file-not-wellformed:' + e.kind
        return out

    if not ref:
        out.discarded = 'empty-file'
        return out

    for r in ref:
        extra = set(r['options']) - set(R.KNOWN_OPTION_KEYS)

        if extra or (r['type'] == 'meta' and 'line_endings' in r['options']):
            out.discarded = 'outside-domain:unlisted-variation'
            return out

    via = scn.get('via', 'from_stream')
    bs = scn.get('block_size')
    reuse = bool(scn.get('reuse'))

    if reuse:
        out.probe('dom_reader_and_writer_objects_reused')

    try:
        tree, h = load(L, w, data, via, bs, reuse, scn.get('stream'))
    except Exception as e:
        es = exc_summary(e, L)

        if canonical:
            out.violate('C06.canonical-not-loadable', '%s:%s' % (
                es['type'], es['func']), {'exc': es})
        elif not es['family']:
            # a crash is not a rejection: the object model says "no" with
            # an error of the library's own family
            out.violate('C06.load-crashes', '%s:%s' % (es['type'],
                                                       es['func']),
                        {'exc': es})
        else:
            out.probe('foreign_not_accepted:' + es['type'])
            out.discarded = 'object-model-does-not-accept'

        return out

    if scn.get('inspect'):
        # the editor looks at everything before saving
        domworld.inspect_tree(tree)
        out.probe('tree_inspected_before_serialising')

    no_main_enc = 'encoding' not in ref[0]['options']
    needs_enc = any(r['type'] in ('preamble', 'meta') and r['_eff'] is None
                    for r in ref)

    try:
        b1 = serialise(L, w, tree, reuse)
    except Exception as e:
        es = exc_summary(e, L)

        if no_main_enc and needs_enc and es['type'] == 'TypeError':
            det = 'no-encoding-in-effect:TypeError'
        else:
            det = '%s:%s' % (es['type'], es['func'])

        out.violate('C06.reserialise-fails', det,
                    {'exc': es, 'canonical': canonical,
                     'first_header': data[:spans[0][1]]})
        return out

    tag = 'canonical' if canonical else 'foreign'

    if canonical:
        if b1 != data:
            k = 0

            while k < min(len(b1), len(data)) and b1[k] == data[k]:
                k += 1

            out.violate('C06.canonical-not-identical', 'bytes',
                        {'offset': k, 'stored': data[max(0, k - 30):k + 30],
                         'reserialised': b1[max(0, k - 30):k + 30]})
            return out
    else:
        try:
            ref1 = R.ref_parse(b1)
        except R.RefReject as e:
            out.violate('C06.reserialised-not-wellformed', e.kind, None)
            return out

        c0, c1 = contents(ref), contents(ref1)

        if len(c0) != len(c1):
            out.violate('C06.contents-differ', 'count',
                        {'before': len(c0), 'after': len(c1)})
            return out

        for i, (x, y) in enumerate(zip(c0, c1)):
            same = x[0] == y[0] and type(x[1]) is type(y[1]) and (
                pipe.json_eq(x[1], y[1]) if isinstance(x[1], dict)
                else x[1] == y[1])

            if not same:
                out.violate('C06.contents-differ', '%s' % x[0],
                            {'index': i, 'before': x[1], 'after': y[1]})
                return out

    # fixed point: parsing and serialising the result again changes nothing
    try:
        t2, _ = load(L, w, b1, 'from_bytes', None)
        b2 = t2.to_bytes()
    except Exception as e:
        es = exc_summary(e, L)
        out.violate('C06.second-cycle-fails', '%s:%s' % (
            es['type'], es['func']), {'exc': es})
        return out

    if b2 != b1:
        out.violate('C06.not-a-fixed-point', tag, None)
        return out

    canon = b''.join(R.header(r['section'], r['options']) + data[he:ce]
                     for r, (hs, he, ce) in zip(ref, spans))
    out.nontrivial = len(ref) >= 4 and (canonical or data != canon)

    for r in ref:
        out.states.add('%s|%s|%s%s%s' % (
            tag, r['section'], 'C' if b'\r\n#' in data[:200] else '-',
            'B' if data != canon else '-', 'N' if no_main_enc else '-'))

    if no_main_enc:
        out.probe('no_main_encoding_accepted')

    return out
