"""C13 — generated statistics are exact, additive, idempotent and
non-destructive.

An analyst actor works on trees whose diffs come from the ground-truth
generator (LF / CRLF, explicit / implicit line_endings, encodings incl.
multi-byte and non-ASCII-compatible ones, garbage lines between hunks,
payloads that look like headers, markers, pre-existing stats dicts with
custom keys, binary / empty / absent / damaged diffs).  Steps:
generate_stats at file, change or tree level, repeated, interleaved with
edits.  Oracle: a stats model applied to the snapshot taken before each step
(counts by an independent hunk counter on the decoded text; per change the
sums of what its files report; top level the sums over changes; existing
stats dicts updated, never replaced); the snapshot after the step must equal
the model's - which also settles "everything else preserved" and, for
repeated steps, idempotence.
"""

import copy

from dsim import diffgen, domgen, domworld, gen, pipe
from dsim import refmodel as R
from dsim.actors import LOAD_STREAMS

ID = 'C13'
LEVEL = 'exploration'
CLASSES = [('stats', 1)]
TIERS = {'quick': {'chunk': 50}}
DIFF_ENCS = [None, None, 'utf-8', 'latin-1', 'utf-16', 'utf-16-le',
             'utf-32-be', 'cp037', 'utf-32', 'shift_jis', 'utf-8-sig',
             'UTF-16', 'utf_8', 'U32', 'cp1252', 'utf-16-be']
RULE = ('seeded trees (1-3 changes x 1-3 files) whose diffs are assembled '
        'from generated hunks with known counts (0-4 hunks, zero-length '
        'sides, omitted ",1", payloads starting with "--" / "++" / "@@", '
        'markers, garbage between hunks), encodings %s, unix/dos, declared '
        'or detected line endings, ~15%% binary / empty / absent / damaged '
        'diffs, pre-existing stats with custom keys; 2-8 generate_stats '
        'steps at file / change / tree level interleaved with edits; '
        'non-trivial = >= 2 files with a parsable text diff and >= 1 '
        'repeated generate_stats; distinct = digest of the op list'
        % (sorted(set(str(e) for e in DIFF_ENCS)),))
ASSUMPTIONS = [
    'declared line_endings are consistent with the diff\'s actual newlines',
    'diffs avoid characters whose UTF-16/32 code units contain 0x0A/0x0D '
    'off alignment (spec silent on byte- vs character-level detection)',
    'pre-existing "stats" entries are dictionaries',
    'a damaged diff counts as unparsable only when the independent counter '
    'also finds a malformed hunk; otherwise its counts are the counter\'s',
]
STATE_MEASURE = ('distinct (level of the step, diff encoding class, newline, '
                 'declared?, file classes present) tuples')


def make_diff(rng, enc, kind, damaged, long_first=0):
    nl = '\n' if kind == 'unix' else '\r\n'

    for _ in range(6):
        lines, ins, dels, parsable = diffgen.gen_diff(
            rng, damaged=damaged,
            ok=lambda p: gen.enc_ok(p, enc or 'utf-8'))

        if not lines:
            continue

        rc = diffgen.reference_count(lines)

        if not damaged and rc != (ins, dels):
            raise AssertionError('diff generator and counter disagree')

        if damaged and rc is not None:
            continue

        break

    if long_first:
        # (multi-byte characters throughout, where the codec has them: any
        # byte offset then falls inside a character now and then)
        unit = '\u00e9/' if gen.enc_ok('\u00e9', enc or 'utf-8') and \
            rng.chance(0.5) else 'p/'
        lines.insert(0, 'Index: ' + unit * long_first)

    if not damaged and not long_first and kind == 'unix' and \
       rng.chance(0.1):
        # an LF diff of a CRLF file: the lines of the file (hunk body) end
        # in CR, the diff's own header lines do not - first and last line
        # disagree, the first line decides
        lines = [l + '\r' if l[:1] in ('+', '-', ' ') and
                 l[:3] not in ('+++', '---') else l for l in lines]

    if not damaged and enc in ('utf-16', 'utf-16-le') and kind == 'dos' \
       and rng.chance(0.15) and lines:
        # characters whose code units, side by side, contain the bytes of
        # an encoded LF (0A 00) off alignment, in the very first line
        lines[0] = lines[0] + ' \u0a05\u0100'

    text = nl.join(lines) + nl

    if not damaged and rng.chance(0.15) and len(lines) > 1:
        # no final line ending (the object model holds the diff as given)
        text = text[:-len(nl)]

    if enc in ('utf-16', 'utf-32') and rng.chance(0.2):
        # big-endian with a byte order mark under the generic name
        return (b'\xfe\xff' if enc == 'utf-16' else b'\x00\x00\xfe\xff') + \
            text.encode(enc + '-be')

    return text.encode(enc or 'utf-8')


def generate(rng, tier, cls):
    tn = 'T1'
    ops = [{'op': 'new_tree', 'tree': tn, 'attrs': {}}]

    if rng.chance(0.3):
        ops.append({'op': 'set', 'tree': tn, 'path': [], 'attr': 'meta',
                    'value': {'stats': rng.choice([
                        {'custom': 7, 'insertions': 99},
                        {'changes': 50, 'files': 60, 'custom': 1}]),
                        'other': 'x'}})

    nch = rng.randint(1, 5 if tier == 'thorough' else 3)
    fkinds = {}
    late_decl = {}

    for ci in range(nch):
        attrs = {}

        if rng.chance(0.3):
            attrs['meta'] = {'stats': rng.choice([
                {'reviewers': 2}, {'changes': 40, 'reviewers': 1},
                {'files': 99, 'insertions': 5}]), 'author': 'a'}

        if rng.chance(0.2):
            attrs['encoding'] = rng.choice(['utf-16', 'utf-32-be', 'cp037'])

        ops.append({'op': 'add_change', 'tree': tn, 'attrs': attrs})

        for fi in range(rng.randint(1, 3)):
            fattrs = {'meta': {'path': 'f%d' % fi}}

            if rng.chance(0.3):
                fattrs['meta']['stats'] = rng.choice([
                    {'custom-key': 'keep', 'insertions': 41},
                    {'files': 7, 'changes': 3, 'deletions': 5},
                    {'lines changed': 100, 'insertions': 1, 'deletions': 2},
                    {'files': 2}])

            k = rng.below(20)
            enc = rng.choice(DIFF_ENCS)
            kind = rng.choice(['unix', 'dos'])

            if k < 15:
                fattrs['diff'] = {'$bytes': make_diff(
                    rng, enc, kind, False,
                    rng.choice([50, 511, 512, 513, 2048, 40000, 70000])
                    if rng.chance(0.06) else 0).hex()}
            elif k < 17:
                fattrs['diff'] = {'$bytes': make_diff(rng, enc, kind,
                                                      True).hex()}
            elif k < 18:
                fattrs['diff'] = {'$bytes': make_diff(rng, enc, kind,
                                                      False).hex()}
                fattrs['diff_type'] = 'binary'
            elif k < 19:
                fattrs['diff'] = {'$bytes': ''}
            # else: absent

            if rng.chance(0.25):
                # the file's own encoding (for its metadata) must not leak
                # into how its diff is read: diffs never inherit
                fattrs['encoding'] = rng.choice(['utf-16', 'utf-32', 'ascii',
                                                 'latin-1', 'cp037'])

            if 'diff' in fattrs:
                fkinds[(ci, fi)] = (enc, kind)
                late = False

                if enc and rng.chance(0.12):
                    # the diff's encoding / line endings are only declared
                    # later, between two generate_stats steps
                    late_decl[(ci, fi)] = (enc, kind)
                    late = True
                elif enc:
                    fattrs['diff_encoding'] = enc

                if late:
                    pass
                elif rng.chance(0.5):
                    fattrs['diff_line_endings'] = kind

                if rng.chance(0.2) and 'diff_type' not in fattrs:
                    fattrs['diff_type'] = 'text'

            ops.append({'op': 'add_file', 'tree': tn, 'change': ci,
                        'attrs': fattrs})

    if rng.chance(0.25):
        # the tree as a loader returns it (written and parsed back): option
        # values are then run-time strings, not the caller's literals
        ops.append({'op': 'parse', 'tree': tn, 'from': tn,
                    'via': rng.choice(['from_bytes', 'from_stream',
                                       'shared_reader']),
                    'stream': rng.choice(LOAD_STREAMS)})

    if rng.chance(0.06):
        # a diff that names a codec which does not exist / is no text codec:
        # that file cannot be analysed, the others still are
        ops.append({'op': 'set', 'tree': tn,
                    'path': [rng.below(nch), rng.below(3)],
                    'attr': 'diff_encoding',
                    'value': rng.choice(['utf-99', 'hex', 'rot13', 'base64',
                                         'undefined', 'nope'])})

    for _ in range(rng.randint(2, 8)):
        k = rng.below(10)

        if k < 4:
            ops.append({'op': 'generate_stats', 'tree': tn, 'path': []})
        elif k < 6:
            ops.append({'op': 'generate_stats', 'tree': tn,
                        'path': [rng.below(nch)]})
        elif k < 8:
            ops.append({'op': 'generate_stats', 'tree': tn,
                        'path': [rng.below(nch), rng.below(3)]})
        elif k < 9:
            ops.append({'op': 'meta_set', 'tree': tn,
                        'path': [rng.below(nch), rng.below(3)],
                        'key': 'note', 'value': 'edited'})
        elif late_decl and rng.chance(0.7):
            key = rng.choice(sorted(late_decl))
            enc, kind = late_decl.pop(key)
            ops.append({'op': 'generate_stats', 'tree': tn, 'path': []})
            ops.append({'op': 'set', 'tree': tn, 'path': list(key),
                        'attr': 'diff_encoding', 'value': enc})

            if rng.chance(0.5):
                ops.append({'op': 'set', 'tree': tn, 'path': list(key),
                            'attr': 'diff_line_endings', 'value': kind})

            ops.append({'op': 'generate_stats', 'tree': tn,
                        'path': rng.choice([[], [key[0]], list(key)])})
        elif fkinds:
            key = rng.choice(sorted(fkinds))
            enc, kind = fkinds[key]
            ops.append({'op': 'set', 'tree': tn, 'path': list(key),
                        'attr': 'diff',
                        'value': {'$bytes': make_diff(
                            rng, enc, kind, False).hex()}})

    if fkinds and rng.chance(0.15):
        # the same file's diff replaced several times by another diff of
        # exactly the same length, statistics regenerated each time
        key = rng.choice(sorted(fkinds))

        for _ in range(rng.randint(2, 6)):
            ops.append({'op': 'generate_stats', 'tree': tn,
                        'path': rng.choice([[], list(key)])})
            ops.append({'op': 'tweak', 'tree': tn, 'path': list(key),
                        'attr': 'diff',
                        'how': rng.choice(['swap_signs',
                                           'swap_first_sign'])})

        ops.append({'op': 'generate_stats', 'tree': tn, 'path': []})

    if rng.chance(0.1):
        # the caller replaces a section's metadata (or just its statistics)
        # wholesale between two runs
        path = rng.choice([[], [rng.below(nch)], [rng.below(nch), 0]])
        ops.append({'op': 'generate_stats', 'tree': tn, 'path': []})
        ops.append({'op': 'set', 'tree': tn, 'path': path, 'attr': 'meta',
                    'value': rng.choice([{'path': 'replaced'},
                                         {'stats': {'custom': 1}},
                                         {'stats': {'insertions': 99,
                                                    'files': 99}}])})
        ops.append({'op': 'generate_stats', 'tree': tn,
                    'path': rng.choice([[], path])})

    if fkinds and rng.chance(0.12):
        # a file section copied (after its statistics were generated) into
        # another change, the copy's diff edited, statistics regenerated
        key = rng.choice(sorted(fkinds))
        ops.append({'op': 'generate_stats', 'tree': tn, 'path': []})
        ops.append({'op': 'clone_file', 'tree': tn, 'from': tn,
                    'path': list(key), 'change': rng.below(nch),
                    'how': rng.choice(['deepcopy', 'pickle'])})
        ops.append({'op': 'tweak', 'tree': tn,
                    'path': [ops[-1]['change'], -1], 'attr': 'diff',
                    'how': 'swap_signs'})
        ops.append({'op': 'generate_stats', 'tree': tn,
                    'path': rng.choice([[], [ops[-2]['change'], -1]])})

    if rng.chance(0.5):
        ops.append(dict(ops[-1]) if ops[-1]['op'] == 'generate_stats'
                   else {'op': 'generate_stats', 'tree': tn, 'path': []})

    return {'actors': [{'id': 'A1', 'kind': 'dom', 'ops': ops}],
            'schedule': [], 'faults': [],
            'dom_values': rng.choice([None] * 7 + ['sub', 'same', 'same'])}


# ---- the stats model ------------------------------------------------------

class Corner(Exception):
    pass


def file_class(fs):
    d = fs['diff']
    c = d['content']
    o = d['options']

    if c is None:
        return 'absent', None

    if not c:
        return 'empty', None

    if o.get('type') == 'binary':
        return 'binary', None

    enc = o.get('encoding')

    try:
        text = c.decode(enc or 'latin-1')
    except (UnicodeError, LookupError):
        return 'undecodable', None

    kind = o.get('line_endings') or R.detect_text(text)
    nl = '\n' if kind == 'unix' else '\r\n'

    # declared line endings that contradict the content: outside the claim
    if kind == 'dos' and text.replace('\r\n', '').count('\n'):
        raise Corner()

    if kind == 'unix' and '\r\n' in text:
        # an LF diff whose lines carry a CR: fine as long as the CRs belong
        # to the lines of the *file* (hunk body); a CR at the end of one of
        # the diff's own lines (file headers, hunk headers, "\ No newline")
        # is the contradiction this check stays out of
        if any(l.endswith('\r') and (l[:3] in ('---', '+++') or
                                     l[:1] not in ('+', '-', ' '))
               for l in text.split('\n')):
            raise Corner()
    lines = text.split(nl)

    if text.endswith(nl):
        lines.pop()

    rc = diffgen.reference_count(lines)

    if rc is None:
        return 'unparsable', None

    return 'text', rc


def merge(meta, stats):
    if isinstance(meta.get('stats'), dict):
        meta['stats'].update(stats)
    else:
        meta['stats'] = stats


def model_file(fs):
    cls, rc = file_class(fs)

    if rc is not None:
        ins, dels = rc
        merge(fs['meta']['content'], {'deletions': dels, 'insertions': ins,
                                      'lines changed': ins + dels})

    return cls


def model_change(cs):
    classes = []
    tot = {'deletions': 0, 'files': len(cs['files']), 'insertions': 0,
           'lines changed': 0}

    for fs in cs['files']:
        classes.append(model_file(fs))
        st = fs['meta']['content'].get('stats', {})

        if isinstance(st, dict):
            for k in ('insertions', 'deletions', 'lines changed'):
                tot[k] += st.get(k, 0)

    merge(cs['meta']['content'], tot)
    return classes


def model_tree(ts):
    classes = []
    tot = {'changes': len(ts['changes']), 'deletions': 0, 'files': 0,
           'insertions': 0, 'lines changed': 0}

    for cs in ts['changes']:
        classes.extend(model_change(cs))
        st = cs['meta']['content']['stats']

        for k in ('files', 'insertions', 'deletions', 'lines changed'):
            tot[k] += st[k]

    merge(ts['meta']['content'], tot)
    return classes


def execute(scn, L):
    out = pipe.Outcome()
    w = pipe.make_world(scn, L)
    w.run()
    out.absorb(w)
    out.case_key = pipe.scn_digest(scn.get('actors'))
    st = domworld.dom_state(w)
    ngen = 0
    seen_ops = []
    repeated = False
    ntext = 0

    for r in st.log:
        op = r['op']

        if op.get('op') != 'generate_stats' or r['outcome'] == 'skip':
            if op.get('op') not in ('generate_stats',):
                seen_ops = []

            continue

        if r['outcome'] == 'raise':
            out.violate('C13.generate-stats-raised', '%s' % (
                r['exc'].get('type'),), {'op': op, 'exc': r['exc']})
            return out

        if 'before' not in r:
            continue

        ngen += 1
        path = op.get('path', [])
        key = str(path)

        if key in seen_ops:
            repeated = True
            out.probe('repeated_generate_stats')

        seen_ops.append(key)
        want = copy.deepcopy(r['before'])

        try:
            if len(path) == 0:
                classes = model_tree(want)
            elif len(path) == 1:
                classes = model_change(want['changes'][path[0]])
            else:
                classes = [model_file(
                    want['changes'][path[0]]['files'][path[1]])]
        except Corner:
            out.discarded = 'declared-line-endings-contradict-content'
            return out
        except Exception:
            out.discarded = 'model-not-applicable'
            return out

        ntext = max(ntext, classes.count('text'))

        for c in classes:
            out.probe('file_class:' + c)

        out.probe('step_level:' + ('tree', 'change', 'file')[len(path)])
        d = domworld.first_diff(want, r['after'])
        level = ('tree', 'change', 'file')[len(path)]
        fs = ','.join(sorted(set(classes)))
        out.states.add('%s|%s' % (level, fs))

        if d is not None:
            node_w, node_g = want, r['after']

            for p in [x for x in d.split('/') if x]:
                try:
                    node_w = node_w[int(p)] if isinstance(node_w, list) \
                        else node_w.get(p)
                    node_g = node_g[int(p)] if isinstance(node_g, list) \
                        else node_g.get(p)
                except Exception:
                    break

            # which file class / encoding is involved (for the signature)
            encs = set()

            for cs in r['before']['changes']:
                for f in cs['files']:
                    e = f['diff']['options'].get('encoding')

                    if f['diff']['content']:
                        encs.add('ascii-compatible' if e in
                                 (None, 'utf-8', 'latin-1', 'shift_jis',
                                  'utf_8', 'cp1252')
                                 else 'non-ascii-compatible')

            out.violate('C13.stats-differ', '%s:%s:%s' % (
                level, domworld.field_class(d).replace(
                    '/changes', '').replace('/files', ''),
                '+'.join(sorted(encs))),
                {'op': op, 'path': d, 'want': node_w, 'got': node_g})
            return out

    out.nontrivial = ntext >= 2 and repeated
    return out
