"""C12 — unknown header options are carried through and change nothing else.

A "newer producer" (version skew) takes any well-formed file (pydiffx-written
or foreign) and adds 1-4 options the library does not know to 1..all headers,
at drawn positions in the option list.  Metamorphic oracle: records of the
extended file == records of the original with exactly those keys added
(integer-valued ones as integers); line, content and every other option
unchanged.
"""

from dsim import gen, pipe
from dsim import refmodel as R
from dsim.actors import read_all
from dsim.actors import STREAM_KINDS
from dsim.world import World, apply_faults

ID = 'C12'
LEVEL = 'exploration'
CLASSES = [('skew', 1)]
TIERS = {'quick': {}}
RULE = ('seeded well-formed files (writer or foreign) extended by a newer '
        'producer with 1-4 unknown options per affected header (keys from '
        'the key grammar incl. look-alikes of known keys such as length2 / '
        'Length / len, values from the full value grammar incl. integers, '
        'leading "/", ".", "-", "_"), at every insertion position; '
        'non-trivial = >= 1 option actually added and the original file has '
        '>= 3 sections; distinct = digest of the extended bytes')
ASSUMPTIONS = [
    'keys do not collide with length / encoding / indent / line_endings / '
    'format / mimetype / type / version',
    'values where Python int() and the grammar -?[0-9]+ disagree (1_0) are '
    'not generated',
    'an integer with more digits than this interpreter converts (CPython: '
    '4300) is expected to stay the text it is',
    'the original records come from the same reader on the unextended file '
    '(itself checked against the reference in C01/C03)',
]
STATE_MEASURE = ('distinct (section id, insertion position class, key '
                 'class, value class) tuples')


def generate(rng, tier, cls):
    prod, data = gen.gen_base_file(rng)

    try:
        recs = R.ref_parse(data)
    except R.RefReject:
        recs = [None]

    n = len(recs)
    faults = []
    long_header = False
    targets = list(range(n))
    rng.shuffle(targets)
    k = rng.weighted([(5, 1), (3, 2), (2, n)])

    for i in sorted(targets[:max(1, min(k, n))]):
        keys = rng.sample(gen.UNKNOWN_KEYS, rng.randint(1, 4))

        for key in keys:
            v = rng.choice(gen.UNKNOWN_VALUES)

            if rng.chance(0.03):
                # very long values: header lines beyond any line buffer
                v = 'x' * rng.choice([200, 4090, 8100, 8200, 9000, 70000])
            elif rng.chance(0.02):
                # integers longer than the interpreter converts
                v = rng.choice(['9', '1', '-7']) * rng.choice([4300, 4301,
                                                               5000])
            elif rng.chance(0.12):
                # ... or just beyond one read-ahead block
                v = 'y' * rng.randint(60, 330)
                long_header = True
            faults.append({'kind': 'skew', 'file': 'f1', 'section': i,
                           'key': key, 'value': v, 'pos': rng.below(6)})

    if rng.chance(0.3) and recs[0] is not None:
        # options the specification defines for *another* kind of section
        # (with a value that is valid there): unknown where they stand, so
        # carried through like any other and without effect on the content
        elsewhere = ELSEWHERE
        i = rng.below(n)
        diffs_at = [j for j in range(n) if recs[j]['type'] == 'diff']

        if diffs_at and rng.chance(0.5):
            i = rng.choice(diffs_at)

        cands = elsewhere.get(recs[i]['type'], [])
        have = recs[i]['options']

        for key, v in (cands[:2] if recs[i]['type'] == 'diff' and
                       rng.chance(0.5) else
                       rng.sample(cands, min(len(cands), rng.randint(1, 2)))):
            if key not in have:
                faults.append({'kind': 'skew', 'file': 'f1', 'section': i,
                               'key': key, 'value': v, 'pos': rng.below(6)})

    if rng.chance(0.12) and recs[0] is not None:
        # the same unknown option(s) on every change / file header (header
        # lines that are byte for byte alike)
        kv = [(rng.choice(gen.UNKNOWN_KEYS), rng.choice(gen.UNKNOWN_VALUES))
              for _ in range(rng.randint(1, 2))]
        kind_ = rng.choice(['file', 'change'])

        for j in range(n):
            if recs[j]['type'] == kind_:
                for key, v in kv:
                    faults.append({'kind': 'skew', 'file': 'f1',
                                   'section': j, 'key': key, 'value': v,
                                   'pos': 0})

    if rng.chance(0.02):
        # hundreds of (short) unknown options on one header
        i = rng.below(n)

        for j in range(rng.choice([120, 400, 700])):
            faults.append({'kind': 'skew', 'file': 'f1', 'section': i,
                           'key': 'k%d' % j, 'value': 'v%d' % (j % 7),
                           'pos': 100000})

    bs = rng.choice([None, None, 1, 7, 64, 97])
    sk = gen.gen_stream(rng)[0]
    sx = gen.gen_stream_extras(rng)

    if long_header and rng.chance(0.6):
        # ... read from a raw / packet-like stream
        sk = rng.choice(['sim', 'minimal'])
        sx['short_hdr'] = rng.randint(0, 999)

    return {'actors': [prod], 'schedule': [], 'faults': faults,
            'block_size': bs, 'stream': sk, 'stream_extras': sx}


# options the specification defines for another kind of section, with a
# value that is valid there
ELSEWHERE = {
    'diff': [('indent', '1'), ('indent', '3'), ('format', 'json'),
             ('mimetype', 'text/plain'), ('version', '1.0')],
    'meta': [('indent', '2'), ('type', 'text'),
             ('mimetype', 'text/markdown'), ('version', '1.0')],
    'preamble': [('format', 'json'), ('type', 'binary'),
                 ('version', '1.0')],
    'change': [('indent', '4'), ('type', 'text'), ('format', 'json'),
               ('mimetype', 'text/plain'), ('version', '1.0')],
    'file': [('indent', '0'), ('type', 'binary'), ('format', 'json'),
             ('mimetype', 'text/plain'), ('version', '1.0')],
}


def vclass(v):
    if R.INT_RE.match(v):
        return 'int'

    return 'lead' + v[0] if v[0] in '/.-_' else 'str'


def execute(scn, L):
    out = pipe.Outcome()
    actors = []

    for a in scn.get('actors', ()):
        if a.get('kind') == 'writer':
            a = pipe.effective_writer_spec(a)

            if a is None:
                out.discarded = 'outside-domain'
                return out

        actors.append(a)

    if not actors:
        out.discarded = 'no-producer'
        return out

    w = pipe.make_world(dict(scn, faults=[]), L, actors)
    w.run()
    out.absorb(w)
    intact = w.visible(actors[0]['file'])

    try:
        ref = R.ref_parse(intact)
    except R.RefReject as e:
        out.discarded = 'intact-not-wellformed:' + e.kind
        return out

    bs = scn.get('block_size')
    sk = scn.get('stream') if scn.get('stream') in STREAM_KINDS else 'sim'
    sx = scn.get('stream_extras') or {}
    skw = {'prefix': sx.get('prefix', 0) if isinstance(sx.get('prefix', 0),
                                                      int) else 0,
           'late_rewind': bool(sx.get('late_rewind')),
           'extras': sx if isinstance(sx, dict) else None}
    w1 = World(scn, L)
    orig, end, exc = read_all(w1, intact, block_size=bs, stream=sk, buf=97,
                               actor='orig', **skw)
    out.absorb(w1)

    if end != 'eof' or len(orig) != len(ref):
        # the unextended file cannot be read the way this scenario reads
        # (that is C03's / C17's business, not a verdict here) - but it must
        # not hide what happens to the extended file either: take the
        # records of a plain reading as the original ones
        w1 = World(scn, L)
        orig, end, exc = read_all(w1, intact, actor='orig-plain')
        out.absorb(w1)
        out.probe('intact_file_read_plainly')

        if end != 'eof' or len(orig) != len(ref):
            out.discarded = 'intact-unreadable'
            return out

    # keep only skew faults inside the domain
    faults = []
    added = {}

    for f in scn.get('faults', ()):
        if f.get('kind') != 'skew':
            continue

        key, v, i = f.get('key'), f.get('value'), f.get('section')

        if not isinstance(key, str) or not isinstance(v, str) or \
           not isinstance(i, int) or not (0 <= i < len(ref)):
            continue

        if not R.KEY_RE.match(key.encode('utf-8', 'replace')) or \
           not R.VAL_RE.match(v.encode('utf-8', 'replace')) or \
           (key in R.KNOWN_OPTION_KEYS and
            (key, v) not in ELSEWHERE.get(ref[i]['type'], ())) or \
           gen.int_corner(v) or \
           key in ref[i]['options'] or key in added.get(i, {}):
            continue

        faults.append(f)
        added.setdefault(i, {})[key] = R.conv_value(v)

    w2 = World(scn, L)
    ext = apply_faults(w2, intact, faults, actors[0]['file'])
    got, end2, exc2 = read_all(w2, ext, block_size=bs, stream=sk, buf=97,
                                actor='ext', **skw)
    out.absorb(w2)
    out.case_key = pipe.scn_digest([ext.hex(), bs])
    out.nontrivial = bool(added) and len(ref) >= 3 and ext != intact

    if end2 != 'eof':
        from dsim.actors import exc_summary
        es = exc_summary(exc2, L) if exc2 is not None else {'type': end2}
        out.violate('C12.extended-rejected', '%s:%s' % (
            es.get('type'), es.get('func')),
            {'exc': es, 'added': {str(k): v for k, v in added.items()}})
        return out

    if len(got) != len(orig):
        out.violate('C12.count', 'records',
                    {'got': len(got), 'orig': len(orig)})
        return out

    for i, (g, o) in enumerate(zip(got, orig)):
        want = dict(o)
        want['options'] = dict(o['options'])
        want['options'].update(added.get(i, {}))
        d = pipe.rec_equal(g, want)

        if d is not None:
            out.violate('C12.record', '%s:%s' % (o.get('type'), d),
                        {'index': i, 'got': g, 'want': want,
                         'added': added.get(i)})
            return out

    for f in faults:
        out.states.add('%s|p%d|%s|%s' % (
            ref[f['section']]['section'], min(int(f.get('pos') or 0), 3),
            'lookalike' if f['key'].lower().startswith(
                ('len', 'enc', 'ind', 'line', 'form', 'vers', 'typ', 'mim'))
            else 'plain', vclass(f['value'])))

    if any(v.startswith('/') for v in (f['value'] for f in faults)):
        out.probe('value_starting_with_slash')

    return out
