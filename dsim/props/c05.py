"""C05 — an object-model tree written then parsed gives back the same tree.

A DomBuilder actor builds trees only through public constructors,
add_change, add_file and typed attributes (0-4 changes, 0-4 files, every
content / option independently set or left default, empty contents
included).  to_bytes(); if it raises the run is counted `unserialisable` and
nothing is claimed (the property is conditional).  Otherwise: bytes ==
reference serialisation of the calls implied by the tree; from_stream over a
SimReadHandle; parsed tree == normalise(original), where normalise applies
exactly the documented list and nothing else.
"""

from dsim import domgen, domworld, gen, pipe
from dsim import refmodel as R
from dsim.actors import (LOAD_STREAMS, exc_summary, load_stream,
                         sized_reader_cls)
from dsim.world import SimReadHandle

ID = 'C05'
LEVEL = 'exploration'
CLASSES = [('build', 1)]
TIERS = {'quick': {'chunk': 50}}
RULE = ('seeded trees built through the public API (0-4 changes x 0-4 '
        'files; each of the 28 typed attributes independently set or left '
        'default; encodings from 21 codecs; empty contents included); '
        'non-trivial = the tree serialises, has >= 1 change with >= 1 file '
        'and >= 1 non-default option on a content section; distinct = digest '
        'of the op list')
ASSUMPTIONS = [
    'the property is conditional on to_bytes() succeeding; the share of '
    'unserialisable trees is reported (discarded_runs)',
    'trees are built through typed attributes only (no raw writes into '
    'options dicts), so every option is a documented one',
]
STATE_MEASURE = ('distinct (section id, set of options present, content '
                 'empty?) tuples over the sections of serialisable trees')


def generate(rng, tier, cls):
    pool = gen.ENCS_COMMON if rng.chance(0.6) else gen.ENCS
    ops = domgen.gen_tree_ops(rng, 'T1', max_changes=rng.choice([1, 2, 4]),
                              max_files=rng.choice([1, 2, 4]),
                              p_set=rng.choice([0.2, 0.5, 0.9]),
                              enc_pool=pool, full=rng.chance(0.85),
                              p_bad_add=rng.choice([0.0, 0.0, 0.3]),
                              p_list_edit=rng.choice([0.0, 0.0, 0.6]))
    return {'actors': [{'id': 'A1', 'kind': 'dom', 'ops': ops}],
            'schedule': [], 'faults': [],
            'block_size': rng.choice([None, None, 1, 13, 97]),
            'dom_values': rng.choice([None] * 8 + ['sub', 'same']),
            'via': rng.choice(['from_stream', 'from_stream', 'from_bytes',
                               'shared_reader', 'subclass']),
            'stream': rng.choice(LOAD_STREAMS)}


def sect_states(out, snap):
    def one(s):
        out.states.add('%s|%s|%s' % (s['id'], ','.join(sorted(s['options'])),
                                     'empty' if not s['content'] else 'set'))

    one(snap['preamble'])
    one(snap['meta'])

    for c in snap['changes']:
        one(c['preamble'])
        one(c['meta'])

        for f in c['files']:
            one(f['meta'])
            one(f['diff'])


def execute(scn, L):
    out = pipe.Outcome()
    w = pipe.make_world(scn, L)
    w.run()
    out.absorb(w)
    out.case_key = pipe.scn_digest(scn.get('actors'))
    st = domworld.dom_state(w)
    tree = st.trees.get('T1')

    if tree is None:
        out.discarded = 'no-tree'
        return out

    snap = domworld.snap_tree(tree)

    if 'error' in snap:
        out.discarded = 'tree-broken'
        return out

    # the tree holds what the successful calls put there: one change per
    # accepted add_change, one file per accepted add_file, minus what was
    # dropped from the lists in place
    shape = []

    for r in st.log:
        op = r['op']

        if op.get('tree') != 'T1' or r['outcome'] != 'ok':
            if op.get('tree') == 'T1' and r['outcome'] == 'raise' and \
               op.get('op') in ('add_change', 'add_file'):
                out.probe('rejected_add_call')

            continue

        name = op.get('op')

        try:
            if name == 'new_tree':
                shape = []
            elif name == 'parse':
                out.discarded = 'outside-domain:parse'
                return out
            elif name == 'add_change':
                shape.append(0)
            elif name in ('add_file', 'clone_file'):
                shape[op.get('change', 0)] += 1
            elif name == 'list_edit':
                out.probe('list_edited_in_place')
                how = op.get('how')
                path = op.get('path') or []

                if not path:
                    if how == 'reverse':
                        shape.reverse()
                    elif how == 'rotate':
                        shape.append(shape.pop(0))
                    elif how == 'swap':
                        shape[0], shape[-1] = shape[-1], shape[0]
                    elif how == 'del_first':
                        del shape[0]
                    else:
                        shape.pop()
                elif how in ('del_first', 'del_last'):
                    shape[path[0]] -= 1
        except (IndexError, TypeError):
            out.discarded = 'outside-domain:shape'
            return out

    if shape != [len(c['files']) for c in snap['changes']]:
        out.violate('C05.tree-shape', 'changes-and-files',
                    {'accepted_calls_imply': shape,
                     'tree_holds': [len(c['files'])
                                    for c in snap['changes']]})
        return out

    try:
        data = tree.to_bytes()
    except Exception as e:
        out.discarded = 'unserialisable'
        out.probe('unserialisable:' + type(e).__name__)
        return out

    calls = domgen.tree_to_calls(snap)

    if isinstance(calls, str):
        out.discarded = 'no-canonical-form:' + calls
        return out

    enc, ver, ops = calls

    if not isinstance(enc, str) or not R.codec_known(enc) or ver != '1.0':
        out.discarded = 'outside-domain'
        return out

    m = R.RefWriter(encoding=enc, version=ver)

    for op in ops:
        try:
            p = m.predict(op)
        except Exception:
            p = None

        if p == R.REJECT_ORDER:
            # the tree holds sections in an order no writer may emit (e.g.
            # a file with a diff and no metadata): serialising it cannot
            # have succeeded
            out.violate('C05.serialised-illegal-order', '%s' % op.get('op'),
                        {'op': {k: v for k, v in op.items()
                                if k in ('op', 'encoding')},
                         'bytes': len(data)})
            return out

        if p != R.ACCEPT:
            # the model does not follow this tree (an argument it classes
            # as refusable, e.g. an unknown codec name): no byte oracle and
            # no tree comparison - but what was serialised without error
            # must at least load again
            out.probe('model_rejects_but_serialised')

            try:
                back = domworld.snap_tree(L.DiffX.from_bytes(data))
            except Exception as e:
                out.violate('C05.own-output-rejected', 'unmodelled:%s:%s' % (
                    type(e).__name__, exc_summary(e, L)['func']),
                    {'exc': exc_summary(e, L),
                     'op': {k: v for k, v in op.items()
                            if k in ('op', 'encoding', 'line_endings')}})
                return out

            # ... with the content it had (a final line ending may have
            # been added, nothing else)
            def contents(s_):
                yield s_['preamble']['content'], s_['meta']['content']

                for c_ in s_['changes']:
                    yield c_['preamble']['content'], c_['meta']['content']

                    for f_ in c_['files']:
                        yield f_['diff']['content'], f_['meta']['content']

            def same_text(a_, b_):
                if not a_ and not b_:
                    return True

                if type(a_) is not type(b_):
                    return False

                nls = ('\n', '\r\n') if isinstance(a_, str) else \
                    (b'\n', b'\r\n')
                return b_ == a_ or (isinstance(a_, (str, bytes)) and
                                    b_.startswith(a_) and
                                    b_[len(a_):] in nls) or \
                    (isinstance(a_, bytes) and b_.startswith(a_) and
                     len(b_) - len(a_) <= 8)

            for (t0, m0), (t1, m1) in zip(contents(snap), contents(back)):
                if not same_text(t0, t1) or not pipe.json_eq(m0 or {},
                                                             m1 or {}):
                    out.violate('C05.tree-differs', 'unmodelled:content',
                                {'before': t0 if not same_text(t0, t1)
                                 else m0, 'after': t1
                                 if not same_text(t0, t1) else m1})
                    return out

            out.discarded = 'model-rejects-but-serialised'
            return out

        m.apply(op)

    if not pipe.check_bytes_against_model(out, 'dom', data, m, ops,
                                          prefix='C05'):
        return out

    # parse it back over a sim handle
    via = scn.get('via', 'from_stream')
    h = load_stream(w, scn.get('stream'), data, 'loader')

    if scn.get('stream'):
        out.probe('loaded_from_stream_kind:%s' % (scn['stream'],))

    try:
        if via == 'from_bytes':
            parsed = L.DiffX.from_bytes(data)
        elif via == 'subclass':
            # a subclass of DiffX that overrides nothing
            parsed = domworld.diffx_subclass(
                L, len(data) % 2 == 0).from_stream(h)
        elif via == 'shared_reader':
            rd = L.DiffXDOMReader(L.DiffX)
            rd.reader_cls = sized_reader_cls(L, scn.get('block_size'))
            parsed = rd.parse(h)
        else:
            parsed = L.DiffX.from_stream(h)
    except Exception as e:
        out.violate('C05.own-output-rejected', '%s:%s' % (
            type(e).__name__, exc_summary(e, L)['func']),
            {'exc': exc_summary(e, L)})
        return out

    got = domworld.snap_tree(parsed)
    want = domgen.normalise(snap, m.records)
    d = domworld.first_diff(want, got)

    if d is not None:
        node_w, node_g = want, got

        for p in [x for x in d.split('/') if x]:
            try:
                node_w = node_w[int(p)] if isinstance(node_w, list) \
                    else node_w.get(p)
                node_g = node_g[int(p)] if isinstance(node_g, list) \
                    else node_g.get(p)
            except Exception:
                break

        out.violate('C05.tree-differs', domworld.field_class(d),
                    {'path': d, 'want': node_w, 'got': node_g})
        return out

    # original tree untouched by serialising / parsing
    if domworld.snap_tree(tree) != snap:
        out.violate('C05.original-mutated', 'to_bytes', None)

    # the parsed copy is the caller's: editing it changes nothing about
    # what a second parse of the same bytes gives
    try:
        parsed.meta = {'edited': True}

        if parsed.changes:
            del parsed.changes[-1]

        again = L.DiffX.from_bytes(data) if via != 'subclass' else \
            domworld.diffx_subclass(L, len(data) % 2 == 1).from_bytes(data)
        d2 = domworld.first_diff(want, domworld.snap_tree(again))

        if d2 is not None:
            out.violate('C05.tree-differs', 'second-parse:' +
                        domworld.field_class(d2), {'path': d2})
            return out
    except Exception as e:
        out.violate('C05.own-output-rejected', 'second-parse:%s' %
                    type(e).__name__, {'exc': exc_summary(e, L)})
        return out

    sect_states(out, snap)
    nd = 0

    for c in snap['changes']:
        for f in c['files']:
            nd += 1

    rich = any(len(r['options']) > 2 for r in m.records[1:]
               if '_plain' in r)
    out.nontrivial = nd >= 1 and rich

    if any((r.get('_eff') or '') in ('utf-16', 'utf-32') for r in m.records
           if '_plain' in r):
        out.probe('bom_codec_section')

    return out
