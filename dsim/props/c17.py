"""C17 — reader output does not depend on stream chunking or header
alignment  (fault_enumeration).

For each generated file (writer- or foreign-produced, incl. long headers and
long content lines): pad one header (any section, drawn) with an unknown option of length
0..2B (C12 guarantees this changes nothing else; every read-ahead starts at
the current stream position, so a header's alignment is its own length modulo
the block size), read under block sizes 1..2B and "larger than the
file" (B = 96, the library's read-ahead block), over three stream kinds
(sim handle, io.BytesIO, io.BufferedReader over a raw sim stream with a drawn
buffer size).  Metamorphic oracle: records identical (modulo the pad option)
across all configurations, and equal to the reference parse.
"""

from dsim import gen, pipe
from dsim import refmodel as R
from dsim.actors import read_all, block_knob_available, exc_summary
from dsim.actors import STREAM_KINDS
from dsim.world import World, apply_faults

ID = 'C17'
LEVEL = 'fault_enumeration'
B = 96
CLASSES = [('grid_sample', 1)]
TIERS = {'quick': {'chunk': 20, 'budget_s': 25.0},
         'thorough': {'chunk': 20}}
RULE = ('per generated file a seeded sample (quick: 60 per file) or the full '
        'grid (thorough sweep tasks: 193 paddings x 194 block sizes) of '
        '(padding 0..2B of the first header, read-ahead block size 1..2B or '
        'larger than the file, stream kind) configurations; an evaluation is '
        'one reader run; non-trivial = block size != 96 or padding > 0, on a '
        'file with >= 3 sections; distinct = distinct (file digest, padding, '
        'block size, stream kind)')
ASSUMPTIONS = [
    'the block size is varied through the existing chunk_size parameter of '
    'DiffXReader._read_until; if a refactor removes it the knob is reported '
    'unavailable and the run degrades to alignment-only exploration (never a '
    'violation)',
    'short reads on the content read are not injected',
]
STATE_MEASURE = ('distinct (offset of the second header\'s end modulo block '
                 'size, block size) pairs')


def generate(rng, tier, cls):
    prod, data = gen.gen_base_file(rng, big=rng.chance(0.15))
    n = 60 if tier == 'quick' else 200
    cfgs = []

    try:
        nsec = max(1, len(R.ref_parse(data)))
    except R.RefReject:
        nsec = 1

    # bounded work per file: fewer configurations for files with very many
    # sections
    n = max(4, min(n, 8000 // nsec))

    for _ in range(n):
        pad = rng.randint(0, 2 * B) if rng.chance(0.8) else \
            rng.choice([0, 1, B - 1, B, B + 1, 2 * B, 2048])
        k = rng.below(10)

        if k < 6:
            bs = rng.randint(1, 2 * B)
        elif k < 8:
            bs = rng.choice([1, 2, B - 1, B, B + 1, 2 * B])
        else:
            bs = 10 ** 6

        kind = rng.weighted([(12, 'sim'), (2, 'bytesio'), (6, 'buffered'),
                             (1, 'minimal'), (1, 'gzip'), (1, 'mmap'),
                             (1, 'spooled'), (1, 'file'), (1, 'gzipfile'), (1, 'rawfile'),
                                         (1, 'fdfile')])
        c = [pad, bs, kind,
             rng.choice([1, 2, 5, 64, 97, 8192]) if kind == 'buffered'
             else None,
             # which header is padded: every read-ahead starts at the current
             # stream position, so a header's alignment is its own length
             # modulo the block size - pad any header, not only the first
             rng.below(nsec) if rng.chance(0.7) else 0]
        cfgs.append(c)

    # absolute stream offsets: shift the start of a later section's header /
    # content onto (and around) page-sized boundaries by padding the first
    # header
    spans = []

    try:
        R.ref_parse(data, spans)
    except R.RefReject:
        spans = []

    if len(spans) > 1 and rng.chance(0.5):
        for _ in range(6):
            hs, he, ce = spans[rng.randint(1, len(spans) - 1)]
            target = rng.choice([hs, he])
            B2 = rng.choice([4096, 4096, 8192, 65536])
            pad = B2 + rng.randint(-2, 2) - target - 6

            if pad > 0:
                cfgs.append([pad, rng.choice([96, 96, 1, 64, 4096]), 'sim',
                             None, 0])

        # a header several blocks long that starts well before a page-sized
        # boundary and ends after it: pad section k until its own end lies
        # beyond the boundary
        for _ in range(4):
            k = rng.below(len(spans))
            hs, he, ce = spans[k]
            B2 = rng.choice([4096, 8192, 8192, 16384, 65536])

            if hs < B2 - 200:
                cfgs.append([B2 - he + rng.randint(-3, 400),
                             rng.choice([96, 96, 16, 64, 97, 1000]),
                             rng.choice(['sim', 'sim', 'bytesio']), None, k])

    if rng.chance(0.3):
        # very long headers together with blocks beyond the usual buffer
        # sizes
        for _ in range(4):
            cfgs.append([rng.choice([8100, 8192, 8193, 9000, 20000, 66000]),
                         rng.choice([8192, 8193, 10000, 65536, 10 ** 6]),
                         rng.choice(['sim', 'sim', 'bytesio']), None,
                         rng.below(nsec)])

    return {'actors': [prod], 'schedule': [], 'faults': [], 'configs': cfgs,
            'buffer_inputs': rng.chance(0.3),
            'stream_extras': gen.gen_stream_extras(rng),
            'short_pad_key': rng.chance(0.2),
            'again': [rng.randint(1, 4), rng.choice(['close', 'throw',
                                                     'drop'])]
            if rng.chance(0.1) else None}


def sweep_tasks(tier, master):
    if tier != 'thorough':
        return []

    from dsim.rng import Rng, derive_seed
    tasks = []

    for i in range(48):
        tasks.append({'name': 'sweep:full-grid', 'index': i,
                      'exhaustive': True,
                      'label': 'full 193x194 (padding x block size) grid on '
                               'sim streams for 48 files',
                      'seed': derive_seed(master, ID, 'grid', i)})

    return tasks


def sweep_scenarios(task):
    from dsim.rng import Rng
    rng = Rng(task['seed'])
    prod, data = gen.gen_base_file(rng, max_changes=1, max_files=2)

    for _ in range(40):
        # (37 442 readings per file, a third of them with blocks of a few
        # bytes: the grid is run over files of ordinary size - large ones
        # are read under sampled configurations by the random classes)
        if len(data) <= 2500:
            break

        prod, data = gen.gen_base_file(rng, max_changes=1, max_files=2)

    try:
        nsec = max(1, len(R.ref_parse(data)))
    except R.RefReject:
        nsec = 1

    psec = task['index'] % nsec

    for pad in range(0, 2 * B + 1):
        cfgs = [[pad, bs, 'sim', None, psec]
                for bs in list(range(1, 2 * B + 1)) + [10 ** 6, 10 ** 6 + 1]]
        yield {'actors': [prod], 'schedule': [], 'faults': [],
               'configs': cfgs, 'seed': task['seed'], 'run': pad}


def strip_pad(rec, key='pad'):
    if isinstance(rec, dict) and isinstance(rec.get('options'), dict) and \
       key in rec['options']:
        rec = dict(rec)
        rec['options'] = {k: v for k, v in rec['options'].items()
                          if k != key}

    return rec


def execute(scn, L):
    out = pipe.Outcome()
    out.evals = 0
    actors = []

    for a in scn.get('actors', ()):
        if a.get('kind') == 'writer':
            a = pipe.effective_writer_spec(a)

            if a is None:
                out.discarded = 'outside-domain'
                return out

        actors.append(a)

    if not actors:
        out.discarded = 'no-producer'
        return out

    w = pipe.make_world(scn, L, actors)
    w.run()
    out.absorb(w)
    intact = w.visible(actors[0]['file'])
    spans = []

    try:
        ref = R.ref_parse(intact, spans)
    except R.RefReject as e:
        out.discarded = 'intact-not-wellformed:' + e.kind
        return out

    # (the padding option's key: also as short as a key can be)
    padkey = 'P' if scn.get('short_pad_key') else 'pad'

    if not ref or any('pad' in r['options'] or 'P' in r['options']
                      for r in ref):
        out.discarded = 'empty-or-padded'
        return out

    knob = block_knob_available(L)

    if not knob:
        out.probe('block_size_knob_unavailable')

    fdig = pipe.scn_digest(intact.hex())
    out.case_key = pipe.scn_digest([fdig, scn.get('configs')])
    seen = set()
    want = [R.public(r) for r in ref]

    for cfg in scn.get('configs', ()):
        try:
            pad, bs, kind = int(cfg[0]), int(cfg[1]), str(cfg[2])
            buf = int(cfg[3]) if len(cfg) > 3 and cfg[3] is not None \
                else None
            psec = int(cfg[4]) if len(cfg) > 4 else 0
        except (TypeError, ValueError, IndexError):
            continue

        if pad < 0 or bs < 1 or kind not in STREAM_KINDS:
            continue

        wk = World(scn, L)
        data = intact

        if pad:
            data = apply_faults(wk, intact, [
                {'kind': 'skew', 'section': psec if 0 <= psec < len(ref)
                 else 0, 'key': padkey, 'value': 'x' * pad}],
                actors[0]['file'])

        sx = scn.get('stream_extras') or {}
        again = scn.get('again')

        if isinstance(again, list) and len(again) == 2 and \
           isinstance(again[0], int) and not sx.get('prefix'):
            # the records of a second pass of the same reader object, after
            # a first pass that was abandoned after a few records (iterator
            # closed / an exception thrown into it / dropped) and a rewind:
            # where the first pass stopped relative to the read-ahead blocks
            # must not matter either
            from dsim.actors import read_twice
            recs, end, exc = read_twice(
                wk, data, block_size=bs, actor='cfg', stream=kind, buf=buf,
                abandon=max(1, again[0]), abandon_how=str(again[1]),
                extras={k: v for k, v in sx.items()
                        if k in ('seek_none', 'short_hdr')}
                if isinstance(sx, dict) else None)
            out.probe('second_pass_after_abandoned_first')
            # (a reader object that is iterated again goes on counting
            # lines where it was: line numbers of a second pass are not
            # compared)
            recs = [dict(g, line=r.get('line')) if isinstance(g, dict) and
                    'line' in g else g for g, r in zip(recs, ref)] + \
                recs[len(ref):]
        else:
            recs, end, exc = read_all(
                wk, data, block_size=bs, stream=kind, buf=buf, actor='cfg',
                prefix=sx.get('prefix', 0)
                if isinstance(sx.get('prefix', 0), int) else 0,
                late_rewind=bool(sx.get('late_rewind')),
                extras=sx if isinstance(sx, dict) else None)
        out.absorb(wk)
        out.evals += 1
        info = {'pad': pad, 'block_size': bs, 'stream': kind, 'buf': buf,
                'padded_section': psec}

        if end != 'eof':
            es = exc_summary(exc, L) if exc is not None else {'type': end}
            info['exc'] = es
            out.violate('C17.config-fails', '%s:%s' % (end, es.get('type')),
                        info)
            break

        if len(recs) != len(want):
            info.update({'got': len(recs), 'want': len(want)})
            out.violate('C17.count', 'records', info)
            break

        bad = False

        for i, (g, r) in enumerate(zip(recs, ref)):
            d = pipe.rec_equal(strip_pad(g, padkey), r)

            if d is not None:
                info.update({'index': i, 'differs': d, 'got': strip_pad(g, padkey),
                             'want': R.public(r)})
                out.violate('C17.record', '%s:%s' % (r['type'], d), info)
                bad = True
                break

        if bad:
            break

        if (bs != B or pad) and len(ref) >= 3:
            seen.add((pad, bs, kind, buf, psec))

        if len(spans) > 1:
            shift = len(data) - len(intact)
            out.states.add('%d|%d' % ((spans[1][1] + shift) % bs
                                      if bs <= 2 * B else -1,
                                      min(bs, 2 * B + 1)))

        if knob and kind == 'sim' and bs < B:
            out.probe('small_block_effective')

    if scn.get('buffer_inputs') and not out.violations:
        # the same bytes handed to the object-model loader as other
        # bytes-like objects: how the data is held must not matter either
        from dsim import domworld

        try:
            base = domworld.snap_tree(L.DiffX.from_bytes(bytes(intact)))
        except Exception:
            base = None

        for typ in (bytearray, memoryview):
            if base is None:
                break

            out.evals += 1

            try:
                got = domworld.snap_tree(L.DiffX.from_bytes(typ(intact)))
            except TypeError as e:
                if exc_summary(e, L)['func'] == 'from_bytes':
                    # a loader that insists on bytes says so up front
                    out.probe('from_bytes_refuses:' + typ.__name__)
                    continue

                out.violate('C17.config-fails', 'from_bytes(%s):TypeError'
                            % typ.__name__, {'exc': exc_summary(e, L)})
                break
            except Exception as e:
                out.violate('C17.config-fails', 'from_bytes(%s):%s' % (
                    typ.__name__, type(e).__name__),
                    {'exc': exc_summary(e, L)})
                break

            if got != base:
                out.violate('C17.record', 'from_bytes(%s):%s' % (
                    typ.__name__, domworld.first_diff(base, got)), None)
                break

            out.probe('from_bytes_bytes_like')

    out.case_weight = len(seen)
    out.nontrivial = bool(seen)
    return out
