"""C15 — newline and BOM handling depends on the codec, not on how its name
is spelled.

The C01/C02 pipeline with the *spelling* of each encoding argument as a
per-run configuration knob: for each stateless text codec of the platform
(catalogue computed from the `encodings` package), spellings from case
changes, "-"/"_" swaps and removal, and every registered alias that resolves
to it, kept only if it matches the option-value grammar and is not purely
numeric; BOM-emitting families always included.
Oracles: (1) the newline the library appends / splits on / checks equals
NL(kind, codec) - observed through the stored bytes and through
get_newline_for_type / guess_line_endings; (2) write -> read returns the same
text; (3) the stored bytes under spelling s equal the reference
serialization, whose content bytes do not depend on the spelling (only the
spelled name in the headers does).
"""

from dsim import codecs_cat, gen, pipe
from dsim import refmodel as R

ID = 'C15'
LEVEL = 'exploration'
CLASSES = [('spelled', 6), ('bom_family', 4)]
TIERS = {'quick': {}}
RULE = ('seeded writer histories in which every encoding argument is a '
        'randomly spelled name of one of 1-3 codecs drawn from the computed '
        'catalogue (~98 stateless text codecs, ~1390 spellings; class '
        'bom_family restricts to utf-16 / utf-32 / utf-8-sig families incl. '
        '-le/-be), unix/dos/unset line endings, indent; non-trivial = at '
        'least one content section whose effective encoding name is not the '
        'codec\'s canonical lower-case spelling; distinct = digest of the '
        'call history')
ASSUMPTIONS = [
    '"supports statelessly" = text codec passing the concatenation test of '
    'dsim/codecs_cat.py on this interpreter',
    'purely numeric aliases (e.g. 437, 1252) are excluded: the reader '
    'reports numeric option values as integers',
]
STATE_MEASURE = 'distinct (codec, spelling) pairs exercised in a content section'

BOM_FAMILY = ['utf-16', 'utf-32', 'utf-8-sig', 'utf-16-le', 'utf-16-be',
              'utf-32-le', 'utf-32-be', 'utf-8']


def generate(rng, tier, cls):
    cat = codecs_cat.catalogue()['codecs']
    names = sorted(cat)

    if cls == 'bom_family':
        codecs = rng.sample([c for c in BOM_FAMILY if c in cat],
                            rng.randint(1, 3))
    else:
        codecs = rng.sample(names, rng.randint(1, 3))

    pool = []

    for c in codecs:
        sp = cat[c]
        pool.extend(rng.sample(sp, min(len(sp), 6)))

    main, ops = gen.gen_history(rng, max_changes=2, max_files=2, pool=pool,
                                p_enc=0.5, main_pool=pool,
                                allow_partial=False)
    r = {'id': 'R1', 'kind': 'reader', 'file': 'f1'}

    if rng.chance(0.3):
        r['block_size'] = rng.choice([1, 13, 97])

    r.update(gen.gen_stream_extras(rng))
    wspec = {'id': 'P1', 'kind': 'writer', 'file': 'f1',
             'main_encoding': main, 'ops': ops}

    if rng.chance(0.1):
        wspec['shadow'] = rng.below(50)

    if rng.chance(0.08):
        # codec names handed over as instances of a str subclass
        wspec['subclassed'] = True

    return {'actors': [wspec, r],
            'schedule': [], 'faults': [], 'codecs': codecs}


def canon_of(name):
    import codecs

    try:
        return codecs.lookup(name).name
    except Exception:
        return None


def execute(scn, L):
    out = pipe.Outcome()
    cat = codecs_cat.catalogue()['codecs']
    wspec = rspec = None

    for a in scn.get('actors', ()):
        if a.get('kind') == 'writer' and wspec is None:
            wspec = a
        elif a.get('kind') == 'reader' and rspec is None:
            rspec = a

    if wspec is None or rspec is None:
        out.discarded = 'no-pipeline'
        return out

    # domain: every encoding named anywhere must be a catalogued spelling
    named = [wspec.get('main_encoding', 'utf-8')] + \
        [op.get('encoding') for op in wspec.get('ops', ())
         if isinstance(op, dict) and op.get('encoding') is not None]

    for n in named:
        c = canon_of(n) if isinstance(n, str) else None

        if c is None or c not in cat or n not in cat[c]:
            out.discarded = 'outside-domain'
            return out

    wspec = pipe.effective_writer_spec(wspec)

    if wspec is None:
        out.discarded = 'outside-domain'
        return out

    w = pipe.make_world(scn, L, [wspec, dict(rspec, file=wspec['file'])])
    w.run()
    out.absorb(w)
    out.case_key = pipe.scn_digest([wspec['main_encoding'], wspec['ops']])
    wa = w.actors[wspec['id']]
    ra = w.actors[rspec['id']]
    m, acc = pipe.model_from_calls(wa)

    if m is None:
        out.probe('writer_unusable:' + acc)
        return out

    if len(acc) != len(wa.ops):
        # a valid call with a spelled codec name was rejected by the writer
        bad = [c for c in wa.calls if c['outcome'] == 'raise'][0]
        out.violate('C15.writer-rejects-spelling', '%s:%s' % (
            bad['op'], (bad.get('exc') or {}).get('type')),
            {'op': wa.ops[bad['i']], 'exc': bad.get('exc')})
        return out

    ok = pipe.check_bytes_against_model(out, 'writer',
                                        w.visible(wspec['file']), m, acc,
                                        prefix='C15')
    pipe.check_calllog_roundtrip(out, 'e2e', m, acc, ra.records, ra.end,
                                 ra.exc_info, prefix='C15')

    # (1) direct: the newline functions, for every spelling used
    for r in m.records:
        if '_plain' not in r or not r['_eff']:
            continue

        sp = r['_eff']
        c = canon_of(sp)
        out.states.add('%s|%s' % (c, sp))

        if sp != c:
            out.nontrivial = True

        if c in ('utf-16', 'utf-32', 'utf-8-sig'):
            out.probe('bom_codec_spelling:%s' % ('canonical' if sp == c
                                                 else 'other'))

        for kind in ('unix', 'dos'):
            want = R.NL(kind, c)

            try:
                got = L.text.get_newline_for_type(kind, encoding=sp)
            except Exception as e:
                out.violate('C15.newline-for-type', '%s:%s' % (
                    c, type(e).__name__), {'spelling': sp, 'kind': kind})
                continue

            if got != want:
                out.violate('C15.newline-for-type', '%s:%s' % (c, kind),
                            {'spelling': sp, 'got': got, 'want': want})

            sample = 'ab'.encode(c)[len(''.encode(c)):] + want + \
                'c'.encode(c)[len(''.encode(c)):] + want

            try:
                gk, gnl = L.text.guess_line_endings(sample, encoding=sp)
            except Exception as e:
                out.violate('C15.guess-line-endings', '%s:%s' % (
                    c, type(e).__name__), {'spelling': sp, 'kind': kind})
                continue

            if gk != kind or gnl != want:
                out.violate('C15.guess-line-endings', '%s:%s' % (c, kind),
                            {'spelling': sp, 'got': [gk, gnl],
                             'want': [kind, want]})

    return out
