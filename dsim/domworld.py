"""The DOM world: several actors working on live object-model trees, stepped
by the seeded scheduler.  A step is one public API call (constructor,
add_change/add_file, typed attribute assignment, mutation through a returned
mutable value, to_bytes, from_stream, ==, repr, iteration, generate_stats).

Invariants evaluated around every step:
  I-isolate  every live tree *not targeted* by the step (and a freshly
             constructed DiffX(), and the class-level defaults) has the same
             deep snapshot as before; observer steps leave even their target
             unchanged
  I-atomic   a step that raised left its own target unchanged
Every value handed to the API is a fresh deep copy, so any aliasing observed
afterwards was created by the library, not by the caller.
"""

import copy

from dsim.actors import (exc_summary, load_stream, pyval, sized_reader_cls,
                         subclassed, plain)
from dsim.world import (Actor, HarnessError, SimEventCap, SimHang,
                        SimReadHandle, SimWriteHandle, jsonable)

OBSERVERS = ('to_bytes', 'eq', 'ne', 'repr', 'iter', 'write_shared',
             'getattrs')


# --------------------------------------------------------------------------
# snapshots (the tree model): plain nested data, no references into the tree
# --------------------------------------------------------------------------

def _snap_content(sec):
    try:
        return {'id': sec.section_id, 'options': plain(sec.options),
                'content': plain(sec.content)}
    except Exception as e:
        return {'error': type(e).__name__}


def _iter_ids(node):
    # what iterating the container yields (ids only)
    try:
        return [getattr(s, 'section_id', None) for s in node]
    except Exception as e:
        return 'error:' + type(e).__name__


def snap_file(f, iters=False):
    try:
        return {'id': f.section_id, 'options': plain(f.options),
                **({'iter': _iter_ids(f)} if iters else {}),
                'meta': _snap_content(f.meta_section),
                'diff': _snap_content(f.diff_section)}
    except Exception as e:
        return {'error': type(e).__name__}


def snap_change(c, iters=False):
    try:
        return {'id': c.section_id, 'options': plain(c.options),
                **({'iter': _iter_ids(c)} if iters else {}),
                'preamble': _snap_content(c.preamble_section),
                'meta': _snap_content(c.meta_section),
                'files': [snap_file(f, iters) for f in c.files]}
    except Exception as e:
        return {'error': type(e).__name__}


def snap_tree(t, iters=False):
    """iters: also what iterating each container yields (section ids) -
    used by the per-step invariants."""
    try:
        return {'id': t.section_id, 'options': plain(t.options),
                **({'iter': _iter_ids(t)} if iters else {}),
                'preamble': _snap_content(t.preamble_section),
                'meta': _snap_content(t.meta_section),
                'changes': [snap_change(c, iters) for c in t.changes]}
    except Exception as e:
        return {'error': type(e).__name__}


def snap_globals(L):
    """Process-global state shared by every user: observed, never patched."""
    out = {}
    o = L.dom_objects

    for cname in ('DiffX', 'DiffXChangeSection', 'DiffXFileSection',
                  'DiffXPreambleSection', 'DiffXMetaSection',
                  'DiffXFileDiffSection'):
        cls = getattr(o, cname, None)

        if cls is None:
            continue

        for attr in ('default_options', 'default_value'):
            if hasattr(cls, attr):
                try:
                    out['%s.%s' % (cname, attr)] = copy.deepcopy(
                        getattr(cls, attr))
                except Exception:
                    pass

    for mod, attr in ((L.dom_writer.DiffXDOMWriter, '_remapped_options'),
                      (L.sections, 'VALID_SECTION_STATES'),
                      (L.text, 'NEWLINE_FORMATS'), (L.text, 'BOMS')):
        if hasattr(mod, attr):
            try:
                out[attr] = copy.deepcopy(getattr(mod, attr))
            except Exception:
                pass

    try:
        out['fresh-DiffX'] = snap_tree(L.DiffX())
    except Exception as e:
        out['fresh-DiffX'] = {'error': type(e).__name__}

    return out


def first_diff(a, b, path=''):
    """Path of the first difference between two snapshots (or None)."""
    if type(a) is not type(b):
        return path or '.'

    if isinstance(a, dict):
        for k in sorted(set(a) | set(b), key=str):
            if k not in a or k not in b:
                return '%s/%s' % (path, k)

            d = first_diff(a[k], b[k], '%s/%s' % (path, k))

            if d:
                return d

        return None
    elif isinstance(a, list):
        if len(a) != len(b):
            return '%s/len' % path

        for i, (x, y) in enumerate(zip(a, b)):
            d = first_diff(x, y, '%s/%d' % (path, i))

            if d:
                return d

        return None

    return None if a == b else (path or '.')


def all_diffs(a, b, path='', out=None, limit=50):
    """Paths of all differences between two snapshots."""
    if out is None:
        out = []

    if len(out) >= limit:
        return out

    if type(a) is not type(b):
        out.append(path or '.')
    elif isinstance(a, dict):
        for k in sorted(set(a) | set(b), key=str):
            if k not in a or k not in b:
                out.append('%s/%s' % (path, k))
            else:
                all_diffs(a[k], b[k], '%s/%s' % (path, k), out, limit)
    elif isinstance(a, list):
        if len(a) != len(b):
            out.append('%s/len' % path)

        for i, (x, y) in enumerate(zip(a, b)):
            all_diffs(x, y, '%s/%d' % (path, i), out, limit)
    elif a != b:
        out.append(path or '.')

    return out


def allowed_prefixes(op, before_tree):
    """Where a mutating step may change its own tree (snapshot paths); None
    = anywhere (structure-wide steps such as generate_stats / parse)."""
    name = op.get('op')
    path = op.get('path', [])

    def node_prefix(p):
        if len(p) == 0:
            return ''
        elif len(p) == 1:
            return '/changes/%d' % int(p[0])

        fi = int(p[1])

        if fi < 0:
            fi += len(before_tree['changes'][int(p[0])]['files'])

        return '/changes/%d/files/%d' % (int(p[0]), fi)

    try:
        if name in ('set', 'tweak'):
            attr = op.get('attr', '')
            base = node_prefix(path)

            if attr.startswith('preamble'):
                return [base + '/preamble']
            elif attr.startswith('meta'):
                return [base + '/meta']
            elif attr.startswith('diff'):
                return [base + '/diff']

            return [base + '/options']
        elif name in ('set_option', 'del_option'):
            base = node_prefix(path)
            sec = op.get('sec', 'self')
            return [base + ('/options' if sec == 'self' else '/' + sec)]
        elif name in ('meta_set', 'meta_nested'):
            return [node_prefix(path) + '/meta']
        elif name == 'add_change':
            n = len(before_tree.get('changes', []))
            return ['/changes/%d' % n, '/changes/len', '/iter']
        elif name in ('add_file', 'clone_file'):
            ci = int(op.get('change', 0))
            n = len(before_tree['changes'][ci]['files'])
            return ['/changes/%d/files/%d' % (ci, n),
                    '/changes/%d/files/len' % ci, '/changes/%d/iter' % ci]
    except Exception:
        return None

    return None


def strict_eq(a, b):
    """Equality that keeps bool / int / float apart at every depth."""
    if type(a) is not type(b):
        return False

    if isinstance(a, dict):
        return a.keys() == b.keys() and all(strict_eq(a[k], b[k])
                                            for k in a)
    elif isinstance(a, (list, tuple)):
        return len(a) == len(b) and all(strict_eq(x, y)
                                        for x, y in zip(a, b))

    return a == b


def field_class(path):
    """Normalised name of a snapshot path (indices removed)."""
    return '/'.join(p for p in (path or '').split('/') if not p.isdigit())


# --------------------------------------------------------------------------
# DOM state shared by the actors of one world
# --------------------------------------------------------------------------

class DomState(object):
    def __init__(self, world):
        L = world.L
        self.trees = {}             # name -> DiffX
        self.blobs = {}             # name -> bytes of the last to_bytes
        self.shared_reader = L.DiffXDOMReader(L.DiffX)
        self.shared_writer = L.DiffXDOMWriter()
        self.snaps = None
        self.globals0 = snap_globals(L)
        self.log = []               # per-op results, for history checks


def dom_state(world):
    st = getattr(world, 'dom', None)

    if st is None:
        st = world.dom = DomState(world)

    return st


def resolve(tree, path):
    """[] -> tree, [i] -> change i, [i, j] -> file j of change i."""
    node = tree

    try:
        if len(path) >= 1:
            node = tree.changes[int(path[0])]

        if len(path) >= 2:
            node = node.files[int(path[1])]
    except (IndexError, TypeError, ValueError, AttributeError):
        return None

    return node


def diffx_subclass(L, deep):
    """A DiffX subclass that overrides nothing (deep=False), or only the
    documented add_change() / add_file() so that its trees consist of its
    own, otherwise unchanged section subclasses (deep=True)."""
    if not deep:
        return type('DiffX', (L.DiffX,), {'__slots__': ()})

    o = L.dom_objects
    File = type('DiffXFileSection', (o.DiffXFileSection,), {'__slots__': ()})

    def add_file(self, **attrs):
        f = File(parent_section=self, **attrs)
        self.files.append(f)
        return f

    Change = type('DiffXChangeSection', (o.DiffXChangeSection,),
                  {'__slots__': (), 'add_file': add_file})

    def add_change(self, **attrs):
        c = Change(parent_section=self, **attrs)
        self.changes.append(c)
        return c

    return type('DiffX', (L.DiffX,), {'__slots__': (),
                                      'add_change': add_change})


def argval(world, st, v, top=True):
    """The Python value an op hands to the library.  Scenario key
    'dom_values': 'sub' = instances of subclasses of str / int / bytes / dict
    (top level, and the values of keyword dicts); 'same' = equal str / bytes
    values are the very same object every time (a reused literal or
    variable) instead of equal copies."""
    mode = world.scn.get('dom_values')
    v = copy.deepcopy(pyval(v))

    if mode == 'sub':
        return subclassed(v)
    elif mode == 'same' and type(v) in (str, bytes):
        cache = st.__dict__.setdefault('valcache', {})
        return cache.setdefault((type(v).__name__, v), v)

    return v


def argattrs(world, st, attrs):
    attrs = attrs if isinstance(attrs, dict) else {}
    return {k: argval(world, st, v) for k, v in attrs.items()}


class DomActor(Actor):
    kind = 'dom'

    def __init__(self, spec):
        Actor.__init__(self, spec)
        self.ops = spec.get('ops', [])
        self.i = 0

        if not self.ops:
            self.done = True

    def step(self, world):
        st = dom_state(world)
        op = self.ops[self.i]
        self.i += 1

        if self.i >= len(self.ops):
            self.done = True

        run_dom_op(world, st, self.id, op)


def run_dom_op(world, st, aid, op):
    L = world.L
    name = op.get('op')
    # nothing touches the trees between two steps, so the snapshot taken
    # after the previous step is the one before this step
    if st.snaps is not None and set(st.snaps) == set(st.trees):
        before = st.snaps
    else:
        before = {k: snap_tree(t, True)
                  for k, t in sorted(st.trees.items())}

    targets = [op.get('tree')] if name not in ('eq', 'ne') else []
    res = {'actor': aid, 'op': op, 'outcome': 'skip'}
    world.ev(aid, 'dom', name, op.get('tree'))

    try:
        res.update(_do(world, st, op) or {})
        res.setdefault('outcome', 'ok')

        if res['outcome'] == 'skip' and 'skipped' not in res:
            res['outcome'] = 'ok'
    except (SimEventCap, SimHang):
        raise
    except HarnessError:
        raise
    except Exception as e:
        res['outcome'] = 'raise'
        res['exc'] = exc_summary(e, L)

    st.log.append(res)
    world.ev(aid, 'dom-result', name, res['outcome'],
             res.get('exc', {}).get('type'))

    # ---- invariants -----------------------------------------------------
    after = {k: snap_tree(t, True) for k, t in sorted(st.trees.items())}
    st.snaps = after

    for k in sorted(before):
        if k not in after:
            continue

        d = first_diff(before[k], after[k])

        if d is None:
            continue

        if k not in targets:
            world.violate('C18.isolation', '%s:%s' % (name, field_class(d)),
                          {'op': op, 'changed_tree': k, 'path': d})
        elif name in OBSERVERS:
            world.violate('C18.observer-mutates', '%s:%s' % (
                name, field_class(d)), {'op': op, 'tree': k, 'path': d})
        elif name == 'tweak' and op.get('how') == 'self' and \
                res['outcome'] == 'ok':
            # an attribute assigned the very value it holds: nothing changes
            world.violate('C19.self-assignment-changes-tree', '%s:%s' % (
                op.get('attr'), field_class(d)),
                {'op': op, 'tree': k, 'path': d})
        elif res['outcome'] == 'raise' and name in (
                'set', 'tweak', 'add_change', 'add_file', 'new_tree'):
            world.violate('C19.not-atomic', '%s:%s:%s' % (
                name, op.get('attr', '-'), field_class(d)),
                {'op': op, 'tree': k, 'path': d, 'exc': res.get('exc')})
        elif res['outcome'] != 'raise':
            # a successful mutation of one section must stay inside it: no
            # other section of the same tree may change with it
            allowed = allowed_prefixes(op, before[k])

            if allowed is not None:
                for dp in all_diffs(before[k], after[k]):
                    if not any(dp == a or dp.startswith(a + '/')
                               for a in allowed):
                        world.violate(
                            'C18.isolation-within-tree', '%s:%s' % (
                                name, field_class(dp)),
                            {'op': op, 'tree': k, 'path': dp,
                             'allowed': allowed})
                        break

    if name == 'generate_stats' and op.get('tree') in before and \
       op.get('tree') in after:
        res['before'] = before[op['tree']]
        res['after'] = after[op['tree']]

    g = snap_globals(L)
    d = first_diff(st.globals0, g)

    if d is not None:
        world.violate('C18.global-state', '%s:%s' % (name, field_class(d)),
                      {'op': op, 'path': d})
        st.globals0 = g

    for k in sorted(after):
        if 'error' in after[k]:
            world.violate('C18.tree-broken', '%s' % name,
                          {'op': op, 'tree': k})

    return res


def _do(world, st, op):
    L = world.L
    name = op.get('op')
    tname = op.get('tree')

    if name == 'new_tree':
        attrs = argattrs(world, st, op.get('attrs', {}))
        st.trees[tname] = L.DiffX(**attrs)
        return {}

    if name in ('eq', 'ne'):
        a = st.trees.get(op.get('a'))
        b = st.trees.get(op.get('b'))

        if a is None or b is None:
            return {'outcome': 'skip', 'skipped': 'no-tree'}

        r = (a == b) if name == 'eq' else (a != b)
        sa, sb = snap_tree(a), snap_tree(b)
        res = {'value': r, 'snap_equal': sa == sb,
               # == on Python values blurs bool / int / float (1 == True ==
               # 1.0); JSON does not
               'strict_equal': strict_eq(sa, sb)}

        if res['snap_equal']:
            try:
                res['bytes_equal'] = a.to_bytes() == b.to_bytes()
            except Exception:
                res['bytes_equal'] = None

        return res

    if name == 'new_section':
        # a content section object constructed directly (public classes)
        cls = getattr(L.dom_objects, str(op.get('cls')), None)

        if cls is None:
            return {'outcome': 'skip', 'skipped': 'no-class'}

        cls(**argattrs(world, st, op.get('attrs', {})))
        return {}

    if name == 'parse':
        src = op.get('from')

        if 'hex' in op:
            data = bytes.fromhex(op['hex'])
        elif src in st.trees:
            data = st.trees[src].to_bytes()
        else:
            return {'outcome': 'skip', 'skipped': 'no-source'}

        via = op.get('via', 'from_bytes')

        if isinstance(op.get('cut'), int):
            # a damaged copy (cut short): usually a failing parse
            data = data[:op['cut'] % (len(data) + 1)]

        if via == 'shared_reader':
            # one DiffXDOMReader object reused for every parse of this
            # world, failed ones included: what it returns must not depend
            # on what it parsed before
            try:
                fresh = snap_tree(L.DiffX.from_bytes(data))
            except Exception:
                fresh = None

            h = load_stream(world, op.get('stream'), data, 'dom-parse')

            try:
                t = st.shared_reader.parse(h)
            except Exception as e:
                if fresh is not None:
                    world.violate('C18.shared-reader-differs', 'raises:%s'
                                  % (type(e).__name__,), {'op': op})

                raise

            if fresh is None or snap_tree(t) != fresh:
                world.violate('C18.shared-reader-differs',
                              'accepts' if fresh is None else 'tree',
                              {'op': op})
        elif via == 'from_stream':
            h = load_stream(world, op.get('stream'), data, 'dom-parse')
            t = L.DiffX.from_stream(h)
        else:
            t = L.DiffX.from_bytes(data)

        st.trees[tname] = t
        return {'parsed_from': src}

    if name == 'shift_diff':
        # the first line of one file's diff moved to the end of the diff of
        # the file before it: the same bytes in all, divided differently
        t = st.trees.get(tname)
        ch = resolve(t, [op.get('change', 0)]) if t is not None else None
        files = list(getattr(ch, 'files', ())) if ch is not None else []
        i = int(op.get('file', 0))

        if i + 1 >= len(files):
            return {'outcome': 'skip', 'skipped': 'no-two-files'}

        a, b = files[i].diff, files[i + 1].diff

        if not isinstance(a, bytes) or not isinstance(b, bytes) or \
           b.count(b'\n') < 2:
            return {'outcome': 'skip', 'skipped': 'no-two-diffs'}

        k = b.index(b'\n') + 1
        files[i].diff = a + b[:k]
        files[i + 1].diff = b[k:]
        return {'shifted': k}

    if name == 'clone_tree':
        # a whole tree copied (copy.deepcopy, copy.copy of every level is
        # not offered by the library; a pickle round trip): an equal tree
        # that shares nothing with the original
        src = st.trees.get(op.get('from'))

        if src is None:
            return {'outcome': 'skip', 'skipped': 'no-source'}

        if op.get('how') == 'pickle':
            import pickle
            t = pickle.loads(pickle.dumps(
                src, protocol=op.get('protocol', pickle.HIGHEST_PROTOCOL)))
        else:
            t = copy.deepcopy(src)

        if snap_tree(t) != snap_tree(src):
            world.violate('C18.copy-differs', 'tree:' + str(
                op.get('how', 'deepcopy')), {'op': op})

        try:
            same = t.to_bytes() == src.to_bytes()
        except Exception:
            same = True         # unserialisable trees stay unserialisable

        if not same:
            world.violate('C18.copy-differs', 'tree-bytes:' + str(
                op.get('how', 'deepcopy')), {'op': op})

        st.trees[tname] = t
        return {'cloned_tree': True}

    tree = st.trees.get(tname)

    if tree is None:
        return {'outcome': 'skip', 'skipped': 'no-tree'}

    if name == 'add_change':
        attrs = argattrs(world, st, op.get('attrs', {}))
        tree.add_change(**attrs)
        return {}
    elif name == 'add_file':
        node = resolve(tree, [op.get('change', 0)])

        if node is None:
            return {'outcome': 'skip', 'skipped': 'no-change'}

        attrs = argattrs(world, st, op.get('attrs', {}))
        node.add_file(**attrs)
        return {}
    elif name == 'clone_file':
        # a file section copied (copy.deepcopy, or a pickle round trip) from
        # another tree and appended to a change of this one: afterwards the
        # two trees share nothing
        src = st.trees.get(op.get('from'))
        node = resolve(src, op.get('path', [0, 0])) if src is not None \
            else None
        dst = resolve(tree, [op.get('change', 0)])

        if node is None or dst is None or not hasattr(dst, 'files'):
            return {'outcome': 'skip', 'skipped': 'no-node'}

        if op.get('how') == 'pickle':
            import pickle
            clone = pickle.loads(pickle.dumps(node))
        else:
            clone = copy.deepcopy(node)

        if snap_file(clone) != snap_file(node):
            world.violate('C18.copy-differs', str(op.get('how', 'deepcopy')),
                          {'op': op})

        dst.files.append(clone)
        return {'cloned': True}
    elif name == 'list_edit':
        # the public lists of changes / files edited in place (reordered,
        # entries dropped): the tree *is* what those lists hold
        node = resolve(tree, op.get('path', []))

        if node is None:
            return {'outcome': 'skip', 'skipped': 'no-node'}

        lst = getattr(node, 'changes', None) if not op.get('path') \
            else getattr(node, 'files', None)
        how = op.get('how')

        if not isinstance(lst, list) or len(lst) < (2 if how in (
                'reverse', 'rotate', 'swap') else 1):
            return {'outcome': 'skip', 'skipped': 'nothing-to-edit'}

        if how == 'reverse':
            lst.reverse()
        elif how == 'rotate':
            lst.append(lst.pop(0))
        elif how == 'swap':
            lst[0], lst[-1] = lst[-1], lst[0]
        elif how == 'del_first':
            del lst[0]
        else:
            lst.pop()

        return {'len': len(lst)}
    elif name == 'set':
        node = resolve(tree, op.get('path', []))

        if node is None:
            return {'outcome': 'skip', 'skipped': 'no-node'}

        value = argval(world, st, op.get('value'))
        setattr(node, op['attr'], value)
        got = getattr(node, op['attr'])
        return {'stored': jsonable(got), 'stored_type': type(got).__name__,
                # (a subclass instance may be stored as it is or as its
                # plain value)
                'same': strict_eq(plain(got), plain(value))}
    elif name == 'set_option':
        node = resolve(tree, op.get('path', []))

        if node is None:
            return {'outcome': 'skip', 'skipped': 'no-node'}

        sec = op.get('sec', 'self')

        if sec != 'self':
            node = getattr(node, sec + '_section', None)

            if node is None:
                return {'outcome': 'skip', 'skipped': 'no-section'}

        node.options[op['key']] = copy.deepcopy(pyval(op.get('value')))
        return {}
    elif name == 'del_option':
        # remove a key from an options dict (the documented direct route)
        node = resolve(tree, op.get('path', []))

        if node is None:
            return {'outcome': 'skip', 'skipped': 'no-node'}

        sec = op.get('sec', 'self')

        if sec != 'self':
            node = getattr(node, sec + '_section', None)

            if node is None:
                return {'outcome': 'skip', 'skipped': 'no-section'}

        if op.get('key') not in node.options:
            return {'outcome': 'skip', 'skipped': 'no-key'}

        del node.options[op['key']]
        return {}
    elif name == 'meta_set':
        node = resolve(tree, op.get('path', []))

        if node is None:
            return {'outcome': 'skip', 'skipped': 'no-node'}

        node.meta[op['key']] = copy.deepcopy(pyval(op.get('value')))
        return {}
    elif name == 'meta_nested':
        # in-place edit *below* the top level of a section's metadata
        node = resolve(tree, op.get('path', []))

        if node is None:
            return {'outcome': 'skip', 'skipped': 'no-node'}

        md = node.meta
        keys = sorted(md, key=str)

        if op.get('prefer') in md:
            keys.insert(0, op['prefer'])

        for k in keys:
            v = md[k]

            if op.get('deep'):
                # ... as far down as containers go (first container child
                # at every level)
                while True:
                    inner = [x for x in (v.values() if isinstance(v, dict)
                                         else v if isinstance(v, list)
                                         else ())
                             if isinstance(x, (dict, list))]

                    if not inner:
                        break

                    v = inner[0]

            if isinstance(v, dict):
                v[op.get('key', 'nested')] = copy.deepcopy(
                    pyval(op.get('value')))
                return {'nested': 'dict'}
            elif isinstance(v, list):
                v.append(copy.deepcopy(pyval(op.get('value'))))
                return {'nested': 'list'}

        return {'outcome': 'skip', 'skipped': 'nothing-nested'}
    elif name == 'tweak':
        # a single-field perturbation derived from the current value
        node = resolve(tree, op.get('path', []))

        if node is None:
            return {'outcome': 'skip', 'skipped': 'no-node'}

        cur = getattr(node, op['attr'])
        how = op.get('how')

        def rev(v):
            if isinstance(v, dict):
                return {k: rev(v[k]) for k in reversed(list(v))}
            elif isinstance(v, list):
                return [rev(x) for x in v]

            return v

        def retype(v):
            # JSON values that are == but not the same data
            if isinstance(v, bool):
                return int(v)
            elif isinstance(v, int):
                return bool(v) if v in (0, 1) else float(v)
            elif isinstance(v, float) and v == int(v):
                return int(v)
            elif isinstance(v, dict):
                return {k: retype(x) for k, x in v.items()}
            elif isinstance(v, list):
                return [retype(x) for x in v]

            return v

        def grow(v):
            # one more item at the end of the first list found (depth first)
            if isinstance(v, list):
                return v + ['one-more'], True
            elif isinstance(v, dict):
                out = {}
                done = False

                for k, x in v.items():
                    if not done:
                        x, done = grow(x)

                    out[k] = x

                return out, done

            return v, False

        if how == 'self':
            # the attribute assigned the very object it currently holds
            new = cur
        elif how == 'empty' and op.get('attr') in ('preamble', 'diff'):
            # unset <-> empty: the smallest content there is (None, '' and
            # b'' are three different values)
            new = None if cur in ('', b'') else (
                ('' if op['attr'] == 'preamble' else b'')
                if cur is None else None)

            if new is None and cur is None:
                return {'outcome': 'skip', 'skipped': 'not-applicable'}

            setattr(node, op['attr'], new)
            got = getattr(node, op['attr'])
            return {'tweaked': how, 'same': strict_eq(got, new),
                    'stored': jsonable(got)}
        elif how == 'list_append' and isinstance(cur, dict):
            new, done = grow(copy.deepcopy(cur))

            if not done:
                new = dict(new, tags=['one-more'])
        elif how == 'reverse_keys' and isinstance(cur, dict):
            new = rev(copy.deepcopy(cur))
        elif how == 'retype' and isinstance(cur, dict):
            new = retype(copy.deepcopy(cur))

            if strict_eq(new, cur):
                new = None
        elif isinstance(cur, str) and cur:
            new = {'append_nl': cur + '\n', 'append_crlf': cur + '\r\n',
                   'strip_nl': cur[:-1] if cur.endswith('\n') else cur + '\n',
                   'append_space': cur + ' ', 'swapcase': cur.swapcase(),
                   'prepend_bom': '\ufeff' + cur}.get(how)
        elif isinstance(cur, bytes) and cur and how == 'swap_signs':
            # another diff of exactly the same length: inserted lines become
            # deleted ones and vice versa (file-header lines left alone)
            ls = cur.split(b'\n')

            for i, l in enumerate(ls):
                if l[:1] in (b'+', b'-') and l[:3] not in (b'+++', b'---'):
                    ls[i] = (b'-' if l[:1] == b'+' else b'+') + l[1:]

            new = b'\n'.join(ls)

            if new == cur:
                new = None
        elif isinstance(cur, bytes) and cur and how == 'swap_first_sign':
            ls = cur.split(b'\n')

            for i, l in enumerate(ls):
                if l[:1] in (b'+', b'-') and l[:3] not in (b'+++', b'---'):
                    ls[i] = (b'-' if l[:1] == b'+' else b'+') + l[1:]
                    break

            new = b'\n'.join(ls)

            if new == cur:
                new = None
        elif isinstance(cur, bytes) and cur:
            new = {'append_nl': cur + b'\n', 'append_crlf': cur + b'\r\n',
                   'strip_nl': cur[:-1] if cur.endswith(b'\n')
                   else cur + b'\n',
                   'append_space': cur + b' ', 'swapcase': cur.swapcase(),
                   'prepend_bom': b'\xef\xbb\xbf' + cur}.get(how)
        else:
            new = None

        if new is None:
            return {'outcome': 'skip', 'skipped': 'not-applicable'}

        setattr(node, op['attr'], new)
        got = getattr(node, op['attr'])
        return {'tweaked': how, 'same': strict_eq(got, new),
                'stored': jsonable(got)}
    elif name == 'to_bytes':
        b1 = tree.to_bytes()
        b2 = tree.to_bytes()
        st.blobs[tname] = b1

        if b1 != b2:
            world.violate('C18.to-bytes-unstable', 'twice', {'op': op})

        return {'bytes': len(b1)}
    elif name == 'write_shared':
        # one DiffXDOMWriter object reused for every tree of this world: its
        # output must not depend on what it wrote before
        try:
            want = tree.to_bytes()
        except Exception:
            want = None

        st.nshared = getattr(st, 'nshared', 0) + 1
        h = SimWriteHandle(world, 'shared-%d' % st.nshared, 'dom-write')

        try:
            st.shared_writer.write_stream(tree, h)
        except Exception as e:
            if want is not None:
                world.violate('C18.shared-writer-differs', 'raises:%s' % (
                    type(e).__name__,), {'op': op, 'nth_use': st.nshared})

            raise

        got = bytes(h.file.data)

        if want is not None and got != want:
            world.violate('C18.shared-writer-differs', 'bytes',
                          {'op': op, 'nth_use': st.nshared,
                           'shared': got[:80], 'fresh': want[:80]})

        return {'bytes_shared': len(got)}
    elif name == 'repr':
        repr(tree)

        for c in tree.changes:
            repr(c)

        return {}
    elif name == 'iter':
        n = 0

        for s in tree:
            n += 1

            if hasattr(s, '__iter__') and hasattr(s, 'subsections'):
                for s2 in s:
                    n += 1

        return {'n': n}
    elif name == 'getattrs':
        node = resolve(tree, op.get('path', []))

        if node is None:
            return {'outcome': 'skip', 'skipped': 'no-node'}

        inspect_node(node)
        return {}
    elif name == 'generate_stats':
        node = resolve(tree, op.get('path', []))

        if node is None:
            return {'outcome': 'skip', 'skipped': 'no-node'}

        node.generate_stats()
        return {}
    else:
        raise HarnessError('unknown dom op %r' % (name,))


def inspect_node(node):
    """Read every public attribute of a node (looking is not editing)."""
    for a in sorted(dir(node)):
        if not a.startswith('_'):
            try:
                getattr(node, a)
            except AttributeError:
                pass


def inspect_tree(tree):
    inspect_node(tree)

    for c in list(getattr(tree, 'changes', ())):
        inspect_node(c)

        for f in list(getattr(c, 'files', ())):
            inspect_node(f)


def register():
    from dsim import actors
    actors.ACTOR_KINDS['dom'] = DomActor


register()
