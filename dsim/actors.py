"""Actors of the pipeline world: producers (pydiffx writer, foreign/raw stub)
and consumers (pydiffx reader, DOM loader).  A step is one public API call or
one next() on a reader iterator."""

import copy
import inspect
import io
import traceback

from dsim import refmodel as R
from dsim.world import (Actor, HarnessError, SimCrash, SimEventCap, SimHang,
                        FollowHandle, SimRawIO, SimReadHandle,
                        SimWriteHandle, apply_faults, jsonable)


def pyval(v):
    """Scenario value -> Python value.  Tagged dicts express what JSON
    cannot: {"$bytes": hex}, {"$float": "nan"}, {"$tuple": [...]},
    {"$object": 1}."""
    if isinstance(v, dict) and len(v) == 1:
        (k, x), = v.items()

        if k == '$bytes':
            return bytes.fromhex(x)
        elif k == '$float':
            return float(x)
        elif k == '$tuple':
            return tuple(pyval(i) for i in x)
        elif k == '$object':
            return object()
        elif k == '$set':
            return set(pyval(i) for i in x)
        elif k == '$nest':
            # a list nested that many levels deep (built without recursion;
            # written out, the scenario itself would be that deep)
            out = [1]

            for _ in range(int(x)):
                out = [out]

            return out
        elif k == '$intkeys':
            # a dict whose keys are ints (JSON cannot say that)
            return {int(kk): pyval(vv) for kk, vv in x.items()}

    if isinstance(v, dict):
        return {k: pyval(x) for k, x in v.items()}
    elif isinstance(v, list):
        return [pyval(x) for x in v]

    return v


def innermost_lib_frame(exc, root):
    """(function name) of the innermost frame of exc's traceback that lies in
    the code under test; line numbers deliberately left out so a signature
    survives unrelated edits."""
    name = None

    for fs in traceback.extract_tb(exc.__traceback__):
        if fs.filename.startswith(root):
            name = fs.name

    return name


def exc_summary(exc, L):
    d = {
        'type': type(exc).__name__,
        'family': isinstance(exc, L.BaseDiffXError),
        'parse_error': isinstance(exc, L.DiffXParseError),
        'func': innermost_lib_frame(exc, L.root),
        'msg': str(exc)[:200],
    }

    if isinstance(exc, L.DiffXParseError):
        d['linenum'] = getattr(exc, 'linenum', '<missing>')
        d['column'] = getattr(exc, 'column', '<missing>')

    return d


# --------------------------------------------------------------------------
# Writer
# --------------------------------------------------------------------------

class _S(str):
    pass


class _I(int):
    pass


class _B(bytes):
    pass


def subclassed(v):
    """The same value as an instance of a subclass of its type (a str /
    int / bytes subclass; an OrderedDict filled in reverse order for a
    dict): values the API accepts wherever it accepts the base type."""
    if isinstance(v, bool) or v is None:
        return v
    elif type(v) is str:
        return _S(v)
    elif type(v) is int:
        return _I(v)
    elif type(v) is bytes:
        return _B(v)
    elif type(v) is dict:
        from collections import OrderedDict
        return OrderedDict((k, subclassed(v[k]) if type(v[k]) is dict
                            else v[k]) for k in reversed(list(v)))

    return v


def plain(v):
    """A deep copy with every instance of a subclass of str / int / bytes /
    dict / list replaced by the plain value (bool, float, None and unknown
    objects as they are): what a snapshot compares."""
    if isinstance(v, bool) or v is None or isinstance(v, float):
        return v
    elif isinstance(v, str):
        return str(v)
    elif isinstance(v, int):
        return int(v)
    elif isinstance(v, (bytes, bytearray)):
        # a real copy: a snapshot must not keep the tree's own objects
        # alive (their identity and lifetime are the library's business)
        return bytes(bytearray(v))
    elif isinstance(v, dict):
        return {plain(k): plain(x) for k, x in v.items()}
    elif isinstance(v, list):
        return [plain(x) for x in v]
    elif isinstance(v, tuple):
        return tuple(plain(x) for x in v)

    return copy.deepcopy(v)


class _SubclassingWriter(object):
    """Forwards calls to a writer with every argument replaced by its
    subclassed() twin."""

    def __init__(self, w):
        self._w = w

    def __getattr__(self, name):
        f = getattr(self._w, name)

        def call(*a, **kw):
            return f(*[subclassed(x) for x in a],
                     **{k: subclassed(x) for k, x in kw.items()})

        return call


def writer_call(w, op, sub=False):
    """Perform one op dict on a DiffXWriter."""
    name = op['op']
    kw = {}

    if sub:
        w = _SubclassingWriter(w)

    if op.get('positional'):
        # the documented parameter order is part of the API
        order = {
            'new_change': ['encoding'], 'new_file': ['encoding'],
            'write_preamble': ['text', 'encoding', 'indent', 'line_endings',
                               'mimetype'],
            'write_meta': ['metadata', 'encoding', 'meta_format'],
            'write_diff': ['content', 'diff_type', 'encoding',
                           'line_endings'],
        }[name]
        defaults = {'indent': 4, 'meta_format': 'json'}
        vals = []

        for k in order:
            if k == 'content' and 'content' not in op:
                vals.append(bytes.fromhex(op.get('content_hex', '')))
            elif k == 'metadata':
                vals.append(copy.deepcopy(pyval(op.get('metadata'))))
            elif k in op:
                vals.append(pyval(op[k]))
            else:
                vals.append(defaults.get(k))

        # trailing arguments that were not given are left out
        last = max([i for i, k in enumerate(order)
                    if k in op or (k == 'content' and 'content_hex' in op)]
                   or [0])
        return getattr(w, name)(*vals[:last + 1])

    if name in ('new_change', 'new_file'):
        if 'encoding' in op:
            kw['encoding'] = pyval(op['encoding'])

        return getattr(w, name)(**kw)
    elif name == 'write_preamble':
        for k in ('encoding', 'indent', 'line_endings', 'mimetype'):
            if k in op:
                kw[k] = pyval(op[k])

        return w.write_preamble(pyval(op.get('text')), **kw)
    elif name == 'write_meta':
        for k in ('encoding', 'meta_format'):
            if k in op:
                kw[k] = pyval(op[k])

        return w.write_meta(copy.deepcopy(pyval(op.get('metadata'))), **kw)
    elif name == 'write_diff':
        for k in ('encoding', 'line_endings', 'diff_type'):
            if k in op:
                kw[k] = pyval(op[k])

        if 'content' in op:
            content = pyval(op['content'])
        else:
            content = bytes.fromhex(op.get('content_hex', ''))

        return w.write_diff(content, **kw)
    else:
        raise HarnessError('unknown writer op %r' % (name,))


# --------------------------------------------------------------------------
# Shadows: a second, unrelated object of the same class kept alive and
# advanced alternately with the one under observation.  Whatever the shadow
# does is its own business (its results are never judged); the observed
# object must behave as if it were alone.
# --------------------------------------------------------------------------

def _sec(head, body):
    return head.replace('@', str(len(body))).encode('ascii') + body


SHADOW_FILES = [
    # UTF-16 main encoding, nested overrides, LF headers
    b'#diffx: encoding=utf-16, version=1.0\n' +
    _sec('#.preamble: indent=2, length=@\n',
         b'  ' + 'caf\u00e9\n'.encode('utf-16')[2:]) +
    b'#.change: encoding=utf-32\n#..file: encoding=latin-1\n' +
    _sec('#...meta: format=json, length=@\n', b'{"k": "\xe9"}\n') +
    _sec('#...diff: length=@\n', b'x\n') +
    b'#..file:\n' +
    _sec('#...meta: format=json, length=@\n',
         '{"k": 1}\n'.encode('utf-32')[4:]) +
    b'#.change:\n#..file:\n' +
    _sec('#...meta: format=json, length=@\n',
         '{"z": 2}\n'.encode('utf-16')[2:]),
    # CRLF headers, latin-1
    b'#diffx: encoding=latin-1, version=1.0\r\n' +
    _sec('#.meta: format=json, length=@\r\n', b'{"m": "\xfc"}\n') +
    b'#.change:\r\n' + _sec('#..preamble: length=@\r\n', b'p\n') +
    b'#..file:\r\n' + _sec('#...meta: format=json, length=@\r\n',
                            b'{"a": 1}\n') +
    _sec('#...diff: length=@, x-opt=7\r\n', b'ab\r\ncd\r\n'),
    # rejected half way: a header that may not follow, after a file
    b'#diffx: encoding=utf-8, version=1.0\n#.change: encoding=utf-16\n'
    b'#..file: encoding=utf-32\n#...diff: length=2\nx\n',
    # rejected right after a container with exactly one legal successor
    b'#diffx: encoding=ascii, version=1.0\n#.change:\n#..file:\n#..file:\n',
    # ends inside a content section
    b'#diffx: encoding=utf-8, version=1.0\n#.meta: format=json, length=40\n'
    b'{"k":',
]

SHADOW_CALLS = [
    ('new_change', {'encoding': 'utf-16'}),
    ('write_preamble', {'text': 'caf\u00e9\n', 'indent': 3}),
    ('new_file', {'encoding': 'latin-1'}),
    ('write_meta', {'metadata': {'k': '\u00e9'}}),
    ('write_diff', {'content': b'x\n'}),
    ('write_diff', {'content': b'again\n'}),         # rejected (order)
    ('new_file', {}),
    ('write_meta', {'metadata': {'k': '\u2603'}}),
    ('new_change', {}),
    ('write_meta', {'metadata': {'z': 1}, 'encoding': 'utf-32'}),
    ('write_preamble', {'text': 'late\n'}),           # rejected (order)
    ('new_file', {'encoding': 'nope-8'}),             # may be rejected
    ('new_file', {'encoding': 'ascii'}),
    ('write_meta', {'metadata': {'k': '\u00e9'}}),     # rejected (unencodable)
    ('write_meta', {'metadata': {'k': 'e'}}),
]


class ShadowReader(object):
    """Readers over the SHADOW_FILES, one alive at any time; step() pulls
    one record, swallowing whatever happens."""

    def __init__(self, L, k):
        self.L = L
        self.k = int(k)
        self.it = None
        self.n = 0

    def step(self):
        try:
            if self.it is None:
                data = SHADOW_FILES[(self.k + self.n) % len(SHADOW_FILES)]
                self.n += 1
                self.it = iter(self.L.DiffXReader(io.BytesIO(data)))

            next(self.it)
        except (SimCrash, SimEventCap, SimHang):
            raise
        except BaseException:
            self.it = None


class ShadowWriter(object):
    """Writers going through SHADOW_CALLS on throw-away streams."""

    def __init__(self, L, k):
        self.L = L
        self.i = int(k) % len(SHADOW_CALLS)
        self.w = None

    def step(self):
        try:
            if self.w is None:
                self.w = self.L.DiffXWriter(
                    io.BytesIO(), encoding=['utf-8', 'utf-16', 'latin-1'][
                        self.i % 3])
                return

            name, kw = SHADOW_CALLS[self.i]
            self.i += 1

            if self.i >= len(SHADOW_CALLS):
                self.i = 0
                w, self.w = self.w, None
            else:
                w = self.w

            kw = dict(kw)

            if name == 'write_preamble':
                w.write_preamble(kw.pop('text'), **kw)
            elif name == 'write_meta':
                w.write_meta(copy.deepcopy(kw.pop('metadata')), **kw)
            elif name == 'write_diff':
                w.write_diff(kw.pop('content'), **kw)
            else:
                getattr(w, name)(**kw)
        except (SimCrash, SimEventCap, SimHang):
            raise
        except BaseException:
            pass


HOSTILE_ADDITIONS = {'unix', 'dos', 'mac', 'json', 'yaml', 'text', 'binary',
                     'text/plain', 'text/markdown', 'text/html', 'x',
                     'diffx', '.preamble', '.meta', '.change', '..preamble',
                     '..meta', '..file', '...meta', '...diff'}


class RawSink(io.RawIOBase):
    """An unbuffered binary sink (what open(path, 'wb', buffering=0) or a
    socket's raw file object is): a real io.RawIOBase in front of the
    simulated handle, so every write() still is an event there."""

    def __init__(self, handle):
        io.RawIOBase.__init__(self)
        self._h = handle

    def writable(self):
        return True

    def write(self, b):
        self._h.write(b)
        return len(b)


class WriterActor(Actor):
    kind = 'writer'

    def __init__(self, spec):
        Actor.__init__(self, spec)
        self.ops = spec.get('ops', [])
        self.handle = None
        self.w = None
        self.calls = []
        self.crashed = False
        self.io_error = False
        self.ctor_error = None
        self.i = -1

    def step(self, world):
        L = world.L

        if self.handle is None and isinstance(self.spec.get('shadow'), int):
            self.shadow = ShadowWriter(L, self.spec['shadow'])
            self.shadow.step()
            self.shadow.step()

        if self.handle is None:
            self.handle = SimWriteHandle(world, self.spec['file'], self.id)
            self.handle.returns_none = bool(
                self.spec.get('write_returns_none'))
            kw = {}

            if 'main_encoding' in self.spec:
                kw['encoding'] = pyval(self.spec['main_encoding'])

            if 'version' in self.spec:
                kw['version'] = pyval(self.spec['version'])

            wcls = L.DiffXWriter
            sink = self.handle

            if self.spec.get('raw_sink'):
                sink = self.sink = RawSink(self.handle)

            if self.spec.get('subclassed'):
                # a subclass that overrides nothing, handed subclass
                # instances of str / int / bytes / dict
                # (may also override the documented class-level default
                # indent; the generator then passes every indent
                # explicitly, so the override must not matter)
                wcls = type('DiffXWriter', (L.DiffXWriter,),
                            {'DEFAULT_PREAMBLE_INDENT':
                             int(self.spec['indent_attr'])}
                            if isinstance(self.spec.get('indent_attr'), int)
                            and all('indent' in o for o in self.ops
                                    if isinstance(o, dict) and
                                    o.get('op') == 'write_preamble')
                            else {})
                kw = {k: subclassed(v) for k, v in kw.items()}

            self._guarded(world, -1, 'ctor',
                          lambda: setattr(self, 'w',
                                          wcls(sink, **kw)))

            if self.w is None and not self.done:
                self._end(world)

            if not self.ops and not self.done:
                self._end(world)

            return

        self.i += 1
        op = self.ops[self.i]
        self._guarded(world, self.i, op['op'],
                      lambda: writer_call(self.w, op,
                                          bool(self.spec.get('subclassed'))))

        if getattr(self, 'shadow', None) is not None:
            self.shadow.step()

        if self.i + 1 >= len(self.ops) and not self.done:
            self._end(world)

    def _end(self, world):
        self.done = True
        self.handle.file.producer_done = True

    def _guarded(self, world, i, opname, fn):
        f = self.handle.file
        len0 = len(f.data)
        nw0 = self.handle.ncalls
        rec = {'i': i, 'op': opname}

        try:
            fn()
            rec['outcome'] = 'ok'
        except SimCrash:
            rec['outcome'] = 'crash'
            self.crashed = True
            self._end(world)
        except OSError as e:
            rec['outcome'] = 'io-error'
            self.io_error = True
            self._end(world)
        except (SimEventCap, SimHang):
            raise
        except Exception as e:
            rec['outcome'] = 'raise'
            rec['exc'] = exc_summary(e, world.L)

            if self.spec.get('hostile_handler'):
                # a handler that edits what the exception carries (its own
                # copy, as far as the caller can know)
                for v in list(vars(e).values()):
                    try:
                        if isinstance(v, set):
                            v.update(HOSTILE_ADDITIONS)
                        elif isinstance(v, list):
                            v.extend(sorted(HOSTILE_ADDITIONS))
                        elif isinstance(v, dict):
                            v.update({k: 1 for k in HOSTILE_ADDITIONS})
                    except Exception:
                        pass

        rec['wrote'] = len(f.data) - len0
        rec['nwrites'] = self.handle.ncalls - nw0
        rec['len_after'] = len(f.data)
        self.calls.append(rec)
        world.ev(self.id, 'call', i, opname, rec['outcome'],
                 rec.get('exc', {}).get('type'), rec['wrote'])


# --------------------------------------------------------------------------
# Foreign / raw producers (stubs driven by the reference serializer)
# --------------------------------------------------------------------------

def render_blocks(b):
    """A well-formed file with one very large diff made of fixed-length
    lines (a dump): {'line': bytes per line incl. newline, 'count': lines,
    'tail': extra bytes in a last line, 'crlf': bool}; sections before and
    after it."""
    n = max(2, int(b.get('line', 64)))
    nl = b'\r\n' if b.get('crlf') else b'\n'
    line = b'x' * max(0, n - len(nl)) + nl
    body = line * max(1, min(int(b.get('count', 1)), 20000))

    if b.get('tail'):
        body += b'y' * int(b['tail']) + nl

    meta = b'#...meta: format=json, length=9\n{"k": 1}\n'
    return (b'#diffx: encoding=utf-8, version=1.0\n#.change:\n#..file:\n' +
            meta + (b'#...diff: length=%d\n' % len(body)) + body +
            b'#..file:\n' + meta)


def render_nested(n):
    """A file whose metadata is JSON nested `depth` levels deep:
    {'depth': k, 'kind': 'list' | 'dict' | 'unclosed', 'where': 'main' |
    'file'}."""
    k = max(1, min(int(n.get('depth', 1)), 300000))
    kind = n.get('kind')

    if kind == 'dict':
        body = b'{"a": ' * k + b'1' + b'}' * k
    elif kind == 'unclosed':
        body = b'{"a": ' + b'[' * k
    else:
        body = b'{"a": ' + b'[' * k + b']' * k + b'}'

    body += b'\n'
    meta = b': format=json, length=%d\n' % len(body) + body
    head = b'#diffx: encoding=utf-8, version=1.0\n'

    if n.get('where') == 'file':
        return head + b'#.change:\n#..file:\n#...meta' + meta

    return head + b'#.meta' + meta + b'#.change:\n#..file:\n' \
        b'#...meta: format=json, length=9\n{"k": 1}\n'


class RawProducer(Actor):
    """Stores pre-rendered bytes, one chunk per step (so a consumer can
    overtake it at chunk boundaries).  Spec: either "foreign": {...} (see
    refmodel.render_foreign), or "hex": "..", or "chunks_hex": [..]."""
    kind = 'raw'

    def __init__(self, spec):
        Actor.__init__(self, spec)
        self.handle = None
        self.chunks = None
        self.i = 0
        self.crashed = False

    def _render(self):
        s = self.spec

        if 'foreign' in s:
            data = R.render_foreign(s['foreign'])
        elif 'blocks' in s:
            data = render_blocks(s['blocks'])
        elif 'nested' in s:
            data = render_nested(s['nested'])
        elif 'chunks_hex' in s:
            return [bytes.fromhex(c) for c in s['chunks_hex']]
        else:
            data = bytes.fromhex(s.get('hex', ''))

        n = int(s.get('chunk', 0))

        if n <= 0:
            return [data]

        return [data[i:i + n] for i in range(0, len(data), n)] or [b'']

    def step(self, world):
        if self.handle is None:
            self.handle = SimWriteHandle(world, self.spec['file'], self.id)
            self.chunks = self._render()

        if self.i < len(self.chunks):
            try:
                self.handle.write(self.chunks[self.i])
            except SimCrash:
                self.crashed = True
                self.i = len(self.chunks)
            except OSError:
                self.i = len(self.chunks)

            self.i += 1

        if self.i >= len(self.chunks):
            self.done = True
            self.handle.file.producer_done = True


# --------------------------------------------------------------------------
# Reader
# --------------------------------------------------------------------------

_SIZED = {}


def block_knob_available(L):
    try:
        return 'chunk_size' in inspect.signature(
            L.DiffXReader._read_until).parameters
    except (AttributeError, TypeError, ValueError):
        return False


def sized_reader_cls(L, bs):
    """DiffXReader whose read-ahead block size is `bs` (existing parameter
    of _read_until; no repo change).  None => the class itself."""
    if bs is None or not block_knob_available(L):
        return L.DiffXReader

    key = (id(L.DiffXReader), bs)
    cls = _SIZED.get(key)

    if cls is None:
        base = L.DiffXReader
        sig = inspect.signature(base._read_until)

        class SizedReader(base):
            _verif_block = bs

            def _read_until(self, *args, **kwargs):
                # only the block size is overridden; every other argument
                # the library passes goes through unchanged
                try:
                    ba = sig.bind(self, *args, **kwargs)
                    ba.arguments['chunk_size'] = self._verif_block
                except TypeError:
                    return base._read_until(self, *args, **kwargs)

                return base._read_until(*ba.args, **ba.kwargs)

        SizedReader.__name__ = 'DiffXReader'
        cls = _SIZED[key] = SizedReader

    return cls


PREFIXES = [b'', b'From: someone\r\nSubject: a patch\r\n\r\n',
            b'\x00' * 7, b'HTTP/1.1 200 OK\n\n', b'x' * 95, b'y' * 96 + b'\n',
            b'#diffx: version=9.9\n', b'z' * 5000]


def _hang_is_a_verdict(world):
    """The per-scenario CPU allowance ran out inside a library call.  Only
    where inputs are small by construction (C08: arbitrary small byte
    strings) does that say something about the library; elsewhere it is
    about the size of the scenario and is passed up as a harness condition,
    never turned into a verdict."""
    if world.scn.get('property') != 'C08':
        raise SimHang()


def consumer_mutates(rec, mode):
    """A consumer that takes ownership of what it was handed: a yielded
    record is the consumer's to edit (pydiffx.dom.reader itself pops
    options from them); nothing read later may depend on it."""
    if not isinstance(rec, dict) or not mode:
        return

    o = rec.get('options')

    if isinstance(o, dict):
        if mode == 1:
            o.clear()
        elif mode == 2:
            o['encoding'] = 'utf-32'
            o['length'] = 1
            o['indent'] = 1
        elif mode == 3:
            o.pop('encoding', None)
        elif mode == 5:
            # relabelled for the consumer's own dispatch
            if isinstance(rec.get('level'), int):
                rec['level'] += 1

            rec['section'] = rec.get('type')
            rec.pop('type', None)
        else:
            o.clear()
            rec.clear()


STREAM_KINDS = ('sim', 'bytesio', 'buffered', 'minimal', 'gzip', 'mmap',
                'spooled', 'file', 'gzipfile', 'rawfile', 'fdfile')


REAL_FILE_KINDS = ('file', 'gzipfile', 'rawfile', 'fdfile')


def _real_file(data, how):
    """A real file on disk (removed again as soon as it is open): the kind
    of stream whose fileno() / fstat() mean something."""
    import gzip
    import os
    import tempfile
    fd, path = tempfile.mkstemp(prefix='verif_stream_')

    try:
        with os.fdopen(fd, 'wb') as fp:
            fp.write(gzip.compress(data, 1) if how == 'gzipfile' else data)

        if how == 'gzipfile':
            return gzip.open(path, 'rb')
        elif how == 'rawfile':
            # unbuffered: an io.FileIO (a RawIOBase with readinto())
            return open(path, 'rb', buffering=0)
        elif how == 'fdfile':
            # opened from a descriptor: its .name is an int
            return open(os.open(path, os.O_RDONLY), 'rb')

        return open(path, 'rb')
    finally:
        os.unlink(path)


class MinimalStream(object):
    """A hand-written wrapper that offers what the reader documents it
    needs and nothing else: read() and seek()."""

    def __init__(self, h):
        self._h = h

    def read(self, n=-1):
        return self._h.read(n)

    def seek(self, off, whence=0):
        return self._h.seek(off, whence)


def open_stream(world, kind, data, actor, buf=None, cap=None,
                read_error_at=None, prefix=0, extras=None):
    """prefix: index into PREFIXES - bytes that precede the DiffX data in
    the stream and have already been consumed by the caller, so the stream
    is handed over positioned at the start of the DiffX data (an envelope, a
    response header): the reader reads from the current position."""
    pre = PREFIXES[prefix % len(PREFIXES)] if isinstance(prefix, int) else b''
    short_hdr = []

    if isinstance((extras or {}).get('short_hdr'), int) and \
       kind in ('sim', 'minimal'):
        # a raw / packet-like stream: one read() inside every header line
        # comes up short (never inside content: the content read is outside
        # what the checks claim)
        from dsim.world import _spans
        seed = extras['short_hdr']

        for hs, he, ce in _spans(data):
            if he - hs > 2:
                short_hdr.append(hs + 1 + (seed * 7919 + hs) % (he - hs - 2))

            if he - hs > 100:
                # a header longer than one read-ahead block: also inside
                # its first block
                short_hdr.append(hs + 1 + (seed * 31 + hs) % 90)

    data = pre + data

    if kind == 'gzip' and len(data) <= 30000:
        # a real gzip.GzipFile over the compressed bytes (seeks backwards
        # by rewinding and reading again)
        import gzip
        st = gzip.GzipFile(fileobj=io.BytesIO(gzip.compress(data, 1)))
        st.seek(len(pre))
        return st, None
    elif kind == 'mmap' and data:
        import mmap
        st = mmap.mmap(-1, len(data))
        st.write(data)
        st.seek(len(pre))
        return st, None
    elif kind in REAL_FILE_KINDS and len(data) <= 200000:
        st = _real_file(data, kind)
        st.seek(len(pre))
        return st, None
    elif kind == 'spooled':
        import tempfile
        st = tempfile.SpooledTemporaryFile(max_size=1 << 40)
        st.write(data)
        st.seek(len(pre))
        return st, None
    elif kind in ('gzip', 'mmap') + REAL_FILE_KINDS:
        kind = 'bytesio'

    if kind == 'bytesio':
        st = io.BytesIO(data)
        st.seek(len(pre))
        return st, None
    elif kind == 'buffered':
        raw = SimRawIO(world, data, actor, cap=cap)
        st = io.BufferedReader(raw, buffer_size=max(1, int(buf or 8192)))

        if pre:
            st.read(len(pre))

        return st, raw._h
    else:
        x = extras or {}
        h = SimReadHandle(world, data, actor, cap=cap,
                          read_error_at=read_error_at,
                          seek_none=bool(x.get('seek_none')),
                          short_at=[len(pre) + int(b) for b in
                                    list(x.get('short_at') or ()) + short_hdr
                                    if isinstance(b, int)])
        h.pos = len(pre)

        if kind == 'minimal':
            return MinimalStream(h), h

        return h, h


LOAD_STREAMS = [None] * 6 + ['bytesio', 'buffered', 'gzip',
                             'mmap', 'spooled', 'file', 'gzipfile',
                             'rawfile', 'fdfile']


def load_stream(world, kind, data, actor):
    """The stream a DOM loader is handed: the simulated handle unless the
    scenario names another kind of stream (see STREAM_KINDS)."""
    if kind in STREAM_KINDS and kind != 'sim':
        world.ev(actor, 'stream', kind)
        return open_stream(world, kind, data, actor)[0]

    return SimReadHandle(world, data, actor)


class _ViaIterSections(object):
    """Iterating through the documented iter_sections() method instead of
    __iter__ (every other reader construction takes this route)."""

    def __init__(self, rd):
        self.rd = rd

    def __iter__(self):
        m = getattr(self.rd, 'iter_sections', None)
        return m() if m is not None else iter(self.rd)


_CTOR_SUB = {}


def with_own_constructor(cls):
    """A subclass that overrides the documented constructor only: it takes
    a second, required argument and remembers it."""
    sub = _CTOR_SUB.get(id(cls))

    if sub is None:
        def __init__(self, fp, source_name):
            cls.__init__(self, fp)
            self.source_name = source_name

        sub = _CTOR_SUB[id(cls)] = type('DiffXReader', (cls,),
                                        {'__init__': __init__})

    return lambda fp: sub(fp, 'a source')


def make_reader(cls, stream, late_rewind=False, world=None, own_ctor=False,
                probe=False, prior=None, flip=False):
    """late_rewind: the reader object is created while the stream is
    positioned elsewhere (at its end, as right after filling a buffer) and
    the stream is only then moved to where the DiffX data starts; nothing is
    read before iteration begins, so this must not matter."""
    # which documented entry point is used alternates per reader *within a
    # scenario* (a pure function of the scenario, so replays agree)
    n = getattr(world, 'readers_made', 0) + 1

    if world is not None:
        world.readers_made = n

    if isinstance(prior, int) and prior > 0 and hasattr(stream, 'tell') \
       and hasattr(stream, 'seek'):
        # an earlier, throw-away reader on the same stream (a peek at the
        # first records), dropped and collected before the stream is moved
        # back: the stream is the caller's, and stays usable
        import gc

        try:
            start = stream.tell()
            tmp = iter(cls(stream))

            try:
                for _ in range(prior):
                    next(tmp)
            except (SimEventCap, SimHang):
                raise
            except Exception:
                pass

            del tmp
            gc.collect()
            stream.seek(start)
        except (OSError, ValueError) as e:
            if 'closed' in str(e):
                raise

    if own_ctor:
        cls = with_own_constructor(cls)

    via = (n % 2 == 0) != bool(flip)

    if late_rewind and hasattr(stream, 'seek') and hasattr(stream, 'tell'):
        try:
            start = stream.tell()
            stream.seek(0, 2)
            rd = cls(stream)
            stream.seek(start)
            return _ViaIterSections(rd) if via else rd
        except (OSError, ValueError):
            pass

    rd = cls(stream)

    if probe:
        # "is it iterable?": iterators asked for and never advanced (nothing
        # is read before an iteration begins, so this must not matter)
        iter(rd)
        m = getattr(rd, 'iter_sections', None)

        if m is not None:
            m()

    return _ViaIterSections(rd) if via else rd


class ReaderActor(Actor):
    """Pulls records one next() at a time.  Spec: file, block_size, stream
    (sim|bytesio|buffered), buf, wait (default True: start only when the
    producer is done; False: take whatever is visible = a natural cut)."""
    kind = 'reader'

    def __init__(self, spec):
        Actor.__init__(self, spec)
        self.it = None
        self.records = []
        self.end = None             # 'eof' | 'raise' | 'cap' | 'hang'
        self.exc = None
        self.exc_info = None
        self.data = None
        self.handle = None
        self.stream = None
        self.shadow = None

    def _sections_available(self, world):
        n = 0

        for a in world.actors.values():
            if a.kind == 'writer' and a.spec.get('file') == self.spec['file']:
                n += sum(1 for c in a.calls
                         if c['outcome'] == 'ok' and c['wrote'] > 0)

        return n

    def step(self, world):
        L = world.L
        fname = self.spec['file']

        if self.it is None:
            f = world.files.get(fname)

            if self.spec.get('follow'):
                # a consumer that follows the file while it is written: it
                # asks for the next record only when the producer has
                # completed a further section (so it never meets the end
                # of the data inside a section)
                if f is None or self._sections_available(world) < 1:
                    self.waiting = True
                    return

                self.waiting = False
                self.data = None
                self.handle = self.stream = FollowHandle(world, fname,
                                                         self.id)
                cls = sized_reader_cls(L, self.spec.get('block_size'))
                world.faults['reader_follows_growing_file'] += 1

                try:
                    self.it = iter(make_reader(cls, self.stream, False,
                                               world))
                except (SimEventCap, SimHang):
                    raise
                except Exception as e:
                    self.it = iter(())
                    self.end = 'raise'
                    self.exc = e
                    self.exc_info = exc_summary(e, L)
                    self.done = True
                    world.ev(self.id, 'raise', self.exc_info['type'], None)

                return

            if self.spec.get('wait', True) and \
               (f is None or not f.producer_done):
                self.waiting = True
                return

            self.waiting = False
            stored = world.visible(fname)
            faults = [x for x in world.scn.get('faults', ())
                      if x.get('reader', self.id) == self.id]
            self.data = apply_faults(world, stored, faults, fname)
            self.stream, self.handle = open_stream(
                world, self.spec.get('stream', 'sim'), self.data, self.id,
                buf=self.spec.get('buf'), prefix=self.spec.get('prefix', 0),
                extras=self.spec)
            cls = sized_reader_cls(L, self.spec.get('block_size'))
            self.shadow = ShadowReader(L, self.spec['shadow']) \
                if isinstance(self.spec.get('shadow'), int) else None

            if self.shadow is not None:
                self.shadow.step()
                self.shadow.step()

            try:
                self.it = iter(make_reader(
                    cls, self.stream, bool(self.spec.get('late_rewind')),
                    world, bool(self.spec.get('own_ctor')),
                    bool(self.spec.get('probe_iter')),
                    self.spec.get('prior_reader'),
                    bool(self.spec.get('via_iter_sections'))))
            except (SimEventCap, SimHang):
                raise
            except Exception as e:
                # constructing a reader reads nothing: whatever goes wrong
                # here is the reader's doing, and is judged like a failing
                # read
                self.it = iter(())
                self.end = 'raise'
                self.exc = e
                self.exc_info = exc_summary(e, L)
                self.done = True
                world.ev(self.id, 'raise', self.exc_info['type'], None)

            return

        if self.spec.get('follow'):
            f = world.files.get(fname)

            if not f.producer_done and \
               len(self.records) >= self._sections_available(world):
                self.waiting = True
                return

            self.waiting = False

            if not f.producer_done:
                self.followed_live = getattr(self, 'followed_live', 0) + 1

        if self.shadow is not None:
            self.shadow.step()

        try:
            rec = next(self.it)

            if self.spec.get('mutate'):
                self.records.append(copy.deepcopy(rec))
                consumer_mutates(rec, self.spec.get('mutate'))
            else:
                self.records.append(rec)

            world.ev(self.id, 'record', len(self.records) - 1,
                     jsonable(rec.get('section')) if isinstance(rec, dict)
                     else None)
        except StopIteration:
            self.end = 'eof'
            self.done = True
        except SimEventCap:
            self.end = 'cap'
            self.done = True
        except SimHang:
            _hang_is_a_verdict(world)
            self.end = 'hang'
            self.done = True
        except Exception as e:
            self.end = 'raise'
            self.exc = e
            self.exc_info = exc_summary(e, L)
            self.done = True
            world.ev(self.id, 'raise', self.exc_info['type'],
                     self.exc_info.get('linenum'))


def read_all(world, data, block_size=None, stream='sim', buf=None,
             actor='aux', prefix=0, late_rewind=False, extras=None):
    """Synchronous whole-file read used by oracles that need the records of
    a variant (intact file, other configuration).  Same seams, same event
    log."""
    L = world.L
    st, h = open_stream(world, stream, data, actor, buf=buf, prefix=prefix,
                        extras=extras)
    cls = sized_reader_cls(L, block_size)
    recs = []
    end = 'eof'
    exc = None
    mutate = (extras or {}).get('mutate')
    shadow = ShadowReader(L, extras['shadow']) \
        if isinstance((extras or {}).get('shadow'), int) else None

    def alternately(it):
        # the shadow is started first and advanced before every record
        if shadow is not None:
            shadow.step()
            shadow.step()

        it = iter(it)

        while True:
            try:
                rec = next(it)
            except StopIteration:
                return

            yield rec

            if shadow is not None:
                shadow.step()

    try:
        for rec in alternately(make_reader(
                cls, st, late_rewind, world,
                bool((extras or {}).get('own_ctor')),
                bool((extras or {}).get('probe_iter')),
                (extras or {}).get('prior_reader'),
                bool((extras or {}).get('via_iter_sections')))):
            if mutate:
                recs.append(copy.deepcopy(rec))
                consumer_mutates(rec, mutate)
            else:
                recs.append(rec)
    except SimEventCap:
        end = 'cap'
    except SimHang:
        _hang_is_a_verdict(world)
        end = 'hang'
    except Exception as e:
        end = 'raise'
        exc = e

    return recs, end, exc


def header_short_reads(data, seed):
    """Offsets strictly inside the header lines of `data` (lines starting
    with '#'; only for generated files whose content lines never do), one
    per header line, a pure function of (data, seed)."""
    out = []
    pos = 0

    for line in data.split(b'\n'):
        n = len(line) + 1

        if line.startswith(b'#') and len(line) > 1:
            out.append(pos + 1 + (seed * 7919 + pos) % (len(line) - 1))

        pos += n

    return out


def read_twice(world, data, block_size=None, actor='aux', abandon=None,
               extras=None, stream='sim', buf=None, abandon_how='close'):
    """The same reader object iterated twice over the same stream: a
    first pass that runs to its end, fails, or is abandoned after `abandon`
    records; the caller then rewinds the stream and iterates again.  Returns
    the (records, end, exc) of the second pass."""
    L = world.L
    st, h = open_stream(world, stream if stream in STREAM_KINDS else 'sim',
                        data, actor, extras=extras, buf=buf)
    cls = sized_reader_cls(L, block_size)
    rd = make_reader(cls, st, False, world)
    start = st.tell() if hasattr(st, 'tell') else h.pos

    try:
        it = iter(rd)
        n = 0

        for rec in it:
            n += 1

            if abandon is not None and n >= abandon:
                # how the consumer walks away: closes the iterator, throws
                # its own exception into it, or simply drops it
                if abandon_how == 'throw' and hasattr(it, 'throw'):
                    try:
                        it.throw(KeyError('consumer gave up'))
                    except (KeyError, StopIteration):
                        pass
                elif abandon_how == 'drop':
                    it = None
                else:
                    close = getattr(it, 'close', None)

                    if close is not None:
                        close()

                break
    except (SimEventCap, SimHang):
        raise
    except Exception:
        pass

    st.seek(start)
    recs = []
    end = 'eof'
    exc = None

    try:
        for rec in rd:
            recs.append(rec)
    except SimEventCap:
        end = 'cap'
    except SimHang:
        _hang_is_a_verdict(world)
        end = 'hang'
    except Exception as e:
        end = 'raise'
        exc = e

    return recs, end, exc


# --------------------------------------------------------------------------
# DOM loader (pipeline side; the DOM world proper lives in domworld.py)
# --------------------------------------------------------------------------

class DomLoadActor(Actor):
    """DiffX.from_stream(handle) / from_bytes on a stored file, one step."""
    kind = 'dom_load'

    def __init__(self, spec):
        Actor.__init__(self, spec)
        self.tree = None
        self.end = None
        self.exc = None
        self.exc_info = None
        self.handle = None
        self.data = None

    def step(self, world):
        L = world.L
        fname = self.spec['file']
        f = world.files.get(fname)

        if self.spec.get('wait', True) and \
           (f is None or not f.producer_done):
            self.waiting = True
            return

        self.waiting = False
        faults = [x for x in world.scn.get('faults', ())
                  if x.get('reader', self.id) == self.id]
        self.data = apply_faults(world, world.visible(fname), faults, fname)
        via = self.spec.get('via', 'from_stream')

        try:
            if via == 'from_bytes':
                self.tree = L.DiffX.from_bytes(self.data)
            else:
                rea = sea = None
                nsk = False

                for x in world.scn.get('faults', ()):
                    if x['kind'] == 'nonseekable' and \
                       x.get('reader', self.id) == self.id:
                        nsk = True
                        world.faults['nonseekable_stream'] += 1
                    elif x['kind'] == 'read_error' and \
                       x.get('reader', self.id) == self.id:
                        rea = int(x['call'])
                    elif x['kind'] == 'seek_error' and \
                            x.get('reader', self.id) == self.id:
                        sea = int(x['call'])

                if rea is None and sea is None and not nsk and \
                   self.spec.get('stream'):
                    self.handle = load_stream(world, self.spec['stream'],
                                              self.data, self.id)
                else:
                    self.handle = SimReadHandle(world, self.data, self.id,
                                                read_error_at=rea,
                                                seek_error_at=sea,
                                                nonseekable=nsk)

                if via == 'hook':
                    # the documented reader_cls hook: a DiffXReader subclass
                    # whose constructor sniffs the stream and refuses what
                    # is not a DiffX file
                    base = L.DiffXReader
                    perr = L.DiffXParseError

                    def __init__(rd, fp):
                        base.__init__(rd, fp)
                        pos = fp.tell()
                        head = fp.read(7)
                        fp.seek(pos)

                        if head != b'#diffx:':
                            raise perr('not a DiffX file', linenum=0)

                    dom = type('DiffXDOMReader', (L.DiffXDOMReader,), {
                        'reader_cls': type('DiffXReader', (base,),
                                           {'__init__': __init__})})
                    self.tree = dom(L.DiffX).parse(self.handle)
                else:
                    self.tree = L.DiffX.from_stream(self.handle)

            self.end = 'ok'
        except SimEventCap:
            self.end = 'cap'
        except SimHang:
            _hang_is_a_verdict(world)
            self.end = 'hang'
        except Exception as e:
            self.end = 'raise'
            self.exc = e
            self.exc_info = exc_summary(e, L)
            world.ev(self.id, 'raise', self.exc_info['type'])

        self.done = True


ACTOR_KINDS = {
    'writer': WriterActor,
    'raw': RawProducer,
    'reader': ReaderActor,
    'dom_load': DomLoadActor,
}


def build_world(world):
    for spec in world.scn.get('actors', ()):
        cls = ACTOR_KINDS.get(spec.get('kind'))

        if cls is None:
            raise HarnessError('unknown actor kind %r' % (spec.get('kind'),))

        world.add(cls(spec))

    return world
