"""The simulated DiffX exchange: storage, stream handles, fault plan, event
log, scheduler.

Executing a scenario is a pure function of the scenario and the code under
test: nothing here draws from a PRNG, reads a clock or iterates an unordered
container.
"""

import errno
import hashlib
import io
import os
import sys
import zlib
from collections import OrderedDict

from dsim import refmodel as R


class SimCrash(BaseException):
    """The producer process died (BaseException: library code must not be
    able to swallow it)."""


class SimEventCap(BaseException):
    """A parse issued more stream events than any terminating parse can."""


class SimHang(BaseException):
    """CPU-time cap of one run exceeded inside library code."""


class HarnessError(Exception):
    """The scenario itself is unusable (never a verdict about the code)."""


def jsonable(v):
    """Records/values -> JSON-serialisable, deterministic structure."""
    if isinstance(v, bytes):
        return {'hex': v.hex()}
    elif isinstance(v, dict):
        return {str(k): jsonable(v[k]) for k in sorted(v, key=str)}
    elif isinstance(v, (list, tuple)):
        return [jsonable(x) for x in v]
    elif isinstance(v, float):
        return repr(v)
    elif v is None or isinstance(v, (str, int, bool)):
        return v
    else:
        return '<%s>' % type(v).__name__


class SimFile(object):
    __slots__ = ('data', 'writes', 'producer_done')

    def __init__(self):
        self.data = bytearray()
        self.writes = []            # (actor id, nbytes) per write() call
        self.producer_done = False


class SimWriteHandle(object):
    """What DiffXWriter / DiffXDOMWriter are handed.  Append-only, not
    seekable, every write() is an event and may hit the fault plan."""

    def __init__(self, world, fname, actor):
        self.world = world
        self.fname = fname
        self.actor = actor
        self.file = world.files.setdefault(fname, SimFile())
        self.ncalls = 0
        self.closed = False
        # fault plan for this handle
        self.write_error_at = None      # (call index, persisted bytes)
        self.crash_at_byte = None       # global byte offset in the file
        # a sink whose write() returns nothing (response objects, duck-typed
        # sinks): everything handed to write() is still stored
        self.returns_none = False

        for f in world.scn.get('faults', ()):
            if f.get('file') != fname:
                continue

            if f['kind'] == 'write_error':
                self.write_error_at = (int(f['call']), int(f.get('torn', 0)))
            elif f['kind'] == 'crash':
                self.crash_at_byte = int(f['at'])

    def write(self, b):
        w = self.world

        if not isinstance(b, (bytes, bytearray, memoryview)):
            raise TypeError('a bytes-like object is required, not %s'
                            % type(b).__name__)

        b = bytes(b)
        idx = self.ncalls
        self.ncalls += 1
        data = self.file.data

        if self.crash_at_byte is not None and \
           len(data) + len(b) > self.crash_at_byte:
            keep = max(0, self.crash_at_byte - len(data))
            data += b[:keep]
            self.file.writes.append((self.actor, keep))
            w.ev(self.actor, 'write-crash', len(b), keep)
            w.faults['crash'] += 1

            if 0 < keep < len(b):
                w.faults['torn_write'] += 1

            raise SimCrash()

        if self.write_error_at is not None and idx == self.write_error_at[0]:
            keep = min(self.write_error_at[1], len(b))
            data += b[:keep]
            self.file.writes.append((self.actor, keep))
            w.ev(self.actor, 'write-error', len(b), keep)
            w.faults['write_error'] += 1

            if keep:
                w.faults['torn_write'] += 1

            raise OSError(errno.ENOSPC, 'No space left on device (injected)')

        data += b
        self.file.writes.append((self.actor, len(b)))
        w.ev(self.actor, 'write', len(b), zlib.crc32(b))
        return None if self.returns_none else len(b)

    def writable(self):
        return True

    def readable(self):
        return False

    def seekable(self):
        return False

    def flush(self):
        pass

    def close(self):
        self.closed = True


class SimReadHandle(object):
    """What DiffXReader / DiffX.from_stream are handed: read / seek / tell /
    close / context manager over the bytes visible to this consumer."""

    def __init__(self, world, data, actor, cap=None, read_error_at=None,
                 seek_error_at=None, seek_none=False, short_at=None,
                 nonseekable=False):
        self.world = world
        self.data = bytes(data)
        self.pos = 0
        self.actor = actor
        self.closed = False
        self.nevents = 0
        self.nreads = 0
        self.cap = cap if cap is not None else 8 * len(self.data) + 1024
        self.read_error_at = read_error_at
        self.seek_error_at = seek_error_at
        self.nseeks = 0
        self.max_read = 0
        self.close_calls = 0
        # seek() returning nothing (mmap before Python 3.13, hand-written
        # wrappers); short reads: a read that would cross one of these
        # absolute offsets stops there (raw / packet-like streams: read(n)
        # may return fewer than n bytes before the end); a forward-only
        # stream (pipe, socket): seekable() is False, seek / tell fail
        self.seek_none = bool(seek_none)
        self.short_at = sorted(short_at or ())
        self.nonseekable = bool(nonseekable)

    def _event(self, *t):
        self.nevents += 1
        self.world.ev(self.actor, *t)

        if self.nevents > self.cap:
            raise SimEventCap()

    def read(self, n=-1):
        if self.closed:
            raise ValueError('I/O operation on closed file.')

        idx = self.nreads
        self.nreads += 1

        if self.read_error_at is not None and idx == self.read_error_at:
            self._event('read-error', n if isinstance(n, int) else -2)
            self.world.faults['read_error'] += 1
            raise OSError(errno.EIO, 'Input/output error (injected)')

        if n is None:
            n = -1

        if not isinstance(n, int):
            # same contract as io.BytesIO.read('x')
            raise TypeError('argument should be integer or None, not %r'
                            % type(n).__name__)

        if n > sys.maxsize:
            # same contract as io.BytesIO / io.FileIO
            raise OverflowError("cannot fit 'int' into an index-sized "
                                "integer")

        if n < 0:
            out = self.data[self.pos:]
        else:
            out = self.data[self.pos:self.pos + n]

        if self.short_at and n >= 0:
            for b in self.short_at:
                if self.pos < b < self.pos + len(out):
                    out = out[:b - self.pos]
                    self.world.faults['short_read'] += 1
                    break

        self.pos += len(out)

        if len(out) > self.max_read:
            self.max_read = len(out)

        self._event('read', n if n < (1 << 62) else -3, len(out))
        return out

    # The rest of the API an in-memory binary stream offers (io.BytesIO has
    # all of these): a library fast path that uses them must meet the same
    # bytes, and every call is an event like read().
    def read1(self, n=-1):
        return self.read(n)

    def readline(self, size=-1):
        if self.closed:
            raise ValueError('I/O operation on closed file.')

        if size is None:
            size = -1

        j = self.data.find(b'\n', self.pos)
        end = len(self.data) if j < 0 else j + 1

        if size >= 0:
            end = min(end, self.pos + size)

        return self.read(end - self.pos)

    def readlines(self, hint=-1):
        out = []

        while True:
            line = self.readline()

            if not line:
                return out

            out.append(line)

    def readinto(self, b):
        chunk = self.read(len(b))
        b[:len(chunk)] = chunk
        return len(chunk)

    def __iter__(self):
        return self

    def __next__(self):
        line = self.readline()

        if not line:
            raise StopIteration

        return line

    def getvalue(self):
        return self.data

    def seek(self, off, whence=0):
        if self.closed:
            raise ValueError('I/O operation on closed file.')

        if self.nonseekable:
            self._event('seek-unsupported', off, whence)
            raise io.UnsupportedOperation('underlying stream is not seekable')

        idx = self.nseeks
        self.nseeks += 1

        if self.seek_error_at is not None and idx == self.seek_error_at:
            self._event('seek-error', off, whence)
            self.world.faults['seek_error'] += 1
            raise OSError(errno.EIO, 'Input/output error on seek (injected)')

        if whence == os.SEEK_SET:
            new = off
        elif whence == os.SEEK_CUR:
            new = self.pos + off
        elif whence == os.SEEK_END:
            new = len(self.data) + off
        else:
            raise ValueError('invalid whence')

        if new < 0:
            # BytesIO raises for SEEK_SET<0 and clamps otherwise; a correct
            # reader never does this, so make it loud.
            raise ValueError('negative seek position %r' % (new,))

        self.pos = new
        self._event('seek', off, whence)
        return None if self.seek_none else self.pos

    def tell(self):
        if self.nonseekable:
            raise io.UnsupportedOperation('underlying stream is not seekable')

        return self.pos

    def readable(self):
        return True

    def seekable(self):
        return not self.nonseekable

    def writable(self):
        return False

    def close(self):
        self.close_calls += 1
        self.closed = True

    def __enter__(self):
        if self.closed:
            raise ValueError('I/O operation on closed file.')

        return self

    def __exit__(self, *a):
        self.close()
        return False


class SimRawIO(io.RawIOBase):
    """Raw stream for io.BufferedReader(SimRawIO(...)): the "buffered"
    stream kind.  Events are the raw-level calls."""

    def __init__(self, world, data, actor, cap=None):
        io.RawIOBase.__init__(self)
        self._h = SimReadHandle(world, data, actor, cap=cap)

    def readable(self):
        return True

    def seekable(self):
        return True

    def readinto(self, b):
        chunk = self._h.read(len(b))
        b[:len(chunk)] = chunk
        return len(chunk)

    def seek(self, off, whence=0):
        return self._h.seek(off, whence)

    def tell(self):
        return self._h.tell()


# --------------------------------------------------------------------------
# Storage faults: deterministic transforms of the stored bytes, applied when
# a consumer opens the file ("the copy this consumer sees").
# --------------------------------------------------------------------------

_SPANS_MEMO = [None, None]


def _spans(data):
    # (the same stored file is usually asked about many times in a row: a
    # pure function of `data`, remembered for the last one only)
    if _SPANS_MEMO[0] is not None and _SPANS_MEMO[0] == data:
        return list(_SPANS_MEMO[1])

    spans = []
    partial = []

    try:
        R.ref_parse(data, spans, partial)
    except R.RefReject:
        pass
    except Exception:
        pass

    _SPANS_MEMO[0] = bytes(data)
    _SPANS_MEMO[1] = list(spans)
    return spans


_OPT_HEAD_RE = None


def rewrite_header(hdr, key, val, pos=None):
    """hdr: header line incl. its newline.  val None => remove the key;
    otherwise set/replace it (at option position `pos` if given, else in
    place / appended)."""
    import re
    m = re.match(rb'(#[.a-z]*:)(?: (.*?))?(\r?\n)\Z', hdr, re.S)

    if not m:
        return None

    pairs = m.group(2).split(b', ') if m.group(2) else []
    old = [i for i, p in enumerate(pairs) if p.startswith(key + b'=')]
    new_pair = None if val is None else key + b'=' + val

    if old:
        i = old[0]

        if new_pair is None:
            del pairs[i]
        else:
            pairs[i] = new_pair
    elif new_pair is not None:
        if pos is None or pos >= len(pairs):
            pairs.append(new_pair)
        else:
            pairs.insert(max(0, pos), new_pair)

    return m.group(1) + ((b' ' + b', '.join(pairs)) if pairs else b'') + \
        m.group(3)


def apply_faults(world, data, faults, fname):
    """Returns the damaged copy.  A fault whose target does not exist in the
    data is counted `fault_not_taken`, never an error."""
    data = bytes(data)

    for f in faults:
        if f.get('file', fname) != fname:
            continue

        kind = f['kind']
        before = data

        if kind == 'cut':
            at = int(f['at'])

            if 0 <= at < len(data):
                data = data[:at]
            elif at == len(data):
                world.faults['cut_at_end'] += 1
        elif kind == 'flip':
            at = int(f['at'])

            if 0 <= at < len(data):
                data = data[:at] + bytes([int(f['to']) & 255]) + data[at + 1:]
        elif kind == 'insert':
            at = int(f['at'])

            if 0 <= at <= len(data):
                data = data[:at] + bytes.fromhex(f['hex']) + data[at:]
        elif kind == 'delete':
            at = int(f['at'])
            n = int(f.get('n', 1))

            if 0 <= at < len(data):
                data = data[:at] + data[at + n:]
        elif kind in ('set_opt', 'length_fault', 'skew', 'header_damage',
                      'spec_defect_opt'):
            spans = _spans(data)
            i = int(f['section'])

            if 0 <= i < len(spans):
                hs, he, ce = spans[i]

                if kind == 'header_damage':
                    # replace the whole option string of the header
                    nl = b'\r\n' if data[hs:he].endswith(b'\r\n') else b'\n'
                    colon = data.find(b':', hs, he)
                    new = data[hs:colon + 1] + bytes.fromhex(f['opts_hex']) \
                        + nl
                else:
                    val = f.get('value')
                    new = rewrite_header(
                        data[hs:he], f['key'].encode('ascii'),
                        None if val is None else
                        (bytes.fromhex(f['value_hex']) if 'value_hex' in f
                         else str(val).encode('utf-8')),
                        f.get('pos'))

                if new is not None:
                    data = data[:hs] + new + data[he:]
        elif kind == 'tail_byte':
            # replace the last code unit of a content's final newline
            spans = _spans(data)
            i = int(f['section'])

            if 0 <= i < len(spans):
                hs, he, ce = spans[i]
                rep = bytes.fromhex(f['hex'])

                if ce - he >= len(rep) > 0:
                    data = data[:ce - len(rep)] + rep + data[ce:]
        elif kind == 'content_bytes':
            # overwrite bytes inside the content of section i (same length)
            spans = _spans(data)
            i = int(f['section'])

            if 0 <= i < len(spans):
                hs, he, ce = spans[i]
                off = int(f['off'])
                rep = bytes.fromhex(f['hex'])

                if 0 <= off and off + len(rep) <= ce - he:
                    data = data[:he + off] + rep + \
                        data[he + off + len(rep):]
        elif kind == 'shorten':
            # the last n bytes of the content of section i are gone and its
            # length says so (a producer that wrote a partial final newline)
            spans = _spans(data)
            i = int(f['section'])
            n = int(f.get('n', 1))

            if 0 <= i < len(spans) and n > 0:
                hs, he, ce = spans[i]

                if ce - he > n:
                    new = rewrite_header(data[hs:he], b'length',
                                         str(ce - he - n).encode('ascii'))

                    if new is not None:
                        data = data[:hs] + new + data[he:ce - n] + data[ce:]
        elif kind == 'append_fragment':
            # a fragment (the first part of another line ending) follows the
            # content's final newline, and the length says so
            spans = _spans(data)
            i = int(f['section'])
            frag = bytes.fromhex(f['hex'])

            if 0 <= i < len(spans) and frag:
                hs, he, ce = spans[i]
                new = rewrite_header(data[hs:he], b'length',
                                     str(ce - he + len(frag)).encode('ascii'))

                if new is not None:
                    data = data[:hs] + new + data[he:ce] + frag + data[ce:]
        elif kind == 'empty_content':
            spans = _spans(data)
            i = int(f['section'])

            if 0 <= i < len(spans):
                hs, he, ce = spans[i]

                if ce > he:
                    new = rewrite_header(data[hs:he], b'length', b'0')

                    if new is not None:
                        data = data[:hs] + new + data[ce:]
        elif kind in ('dup_line', 'drop_line', 'swap_lines', 'crlf_line',
                      'lf_line'):
            lines = data.split(b'\n')
            n = int(f['line'])

            if 0 <= n < len(lines) - 1:
                if kind == 'dup_line':
                    lines.insert(n, lines[n])
                elif kind == 'drop_line':
                    del lines[n]
                elif kind == 'swap_lines' and n + 1 < len(lines) - 1:
                    lines[n], lines[n + 1] = lines[n + 1], lines[n]
                elif kind == 'crlf_line' and not lines[n].endswith(b'\r'):
                    lines[n] = lines[n] + b'\r'
                elif kind == 'lf_line' and lines[n].endswith(b'\r'):
                    lines[n] = lines[n][:-1]

                data = b'\n'.join(lines)
        elif kind in ('write_error', 'crash', 'read_error', 'seek_error',
                      'rechunk', 'nonseekable'):
            continue        # not storage faults
        else:
            raise HarnessError('unknown fault kind %r' % (kind,))

        if data != before:
            world.faults[kind] += 1
        else:
            world.faults['fault_not_taken'] += 1

    return data


# --------------------------------------------------------------------------
# World + scheduler
# --------------------------------------------------------------------------

class World(object):
    def __init__(self, scn, L):
        self.scn = scn
        self.L = L
        self.files = OrderedDict()
        self.log = []
        self.violations = []
        self.probes = OrderedDict()
        self.faults = _Counter()
        self.states = set()
        self.actors = OrderedDict()
        self.steps = 0
        self.after_step = []        # invariant callbacks(world, actor)

    def ev(self, *t):
        self.log.append(t)

    def probe(self, name, n=1):
        self.probes[name] = self.probes.get(name, 0) + n

    def violate(self, oracle, detail, info=None):
        self.violations.append({
            'oracle': oracle,
            'detail': detail,
            'info': jsonable(info) if info is not None else None,
        })

    def add(self, actor):
        if actor.id in self.actors:
            raise HarnessError('duplicate actor id %r' % (actor.id,))

        self.actors[actor.id] = actor

    def visible(self, fname):
        f = self.files.get(fname)
        return bytes(f.data) if f is not None else b''

    def step(self, actor):
        self.steps += 1
        self.ev(actor.id, 'step', actor.nsteps)
        actor.nsteps += 1
        actor.step(self)

        for cb in self.after_step:
            cb(self, actor)

    def run(self, max_steps=None):
        if max_steps is None:
            # every actor needs about one step per op it performs / record
            # it reads; the cap only bounds runaway schedules
            nops = sum(len(a.spec.get('ops') or ())
                       for a in self.actors.values())
            max_steps = max(4000, 6 * nops + 200)

        sched = self.scn.get('schedule') or ()

        for aid in sched:
            a = self.actors.get(aid)

            if a is None or a.done:
                continue

            if self.steps >= max_steps:
                break

            self.step(a)

        # run everything still alive to completion, in declaration order
        while self.steps < max_steps:
            progressed = False

            for a in list(self.actors.values()):
                while not a.done and self.steps < max_steps:
                    self.step(a)

                    if a.waiting:
                        break       # that step was a no-op wait

                    progressed = True

            if not progressed:
                break

        for a in self.actors.values():
            a.finish(self)

    def digest(self):
        h = hashlib.sha256()

        for t in self.log:
            h.update(repr(t).encode('utf-8'))
            h.update(b'\n')

        return h.hexdigest()


class FollowHandle(SimReadHandle):
    """A read handle on a file that is still being written (tail -f, a
    consumer of a log that grows): every read sees what the producer has
    stored by then."""

    def __init__(self, world, fname, actor, **kw):
        self._fname = fname
        SimReadHandle.__init__(self, world, b'', actor, cap=1 << 30, **kw)

    @property
    def data(self):
        return self.world.visible(self._fname)

    @data.setter
    def data(self, value):
        pass


class _Counter(OrderedDict):
    def __missing__(self, k):
        return 0


class Actor(object):
    kind = None

    def __init__(self, spec):
        self.spec = spec
        self.id = spec['id']
        self.done = False
        self.waiting = False
        self.nsteps = 0

    def step(self, world):
        raise NotImplementedError

    def finish(self, world):
        pass
